------------------------------ MODULE MC_Codec ------------------------------
(***************************************************************************)
(* Bounded instance for C09 (NIST key validation), C12 (serialisation),    *)
(* C13 (no panic at byte-consuming entry points: the deserialisers and the *)
(* doc-hidden KDF helpers) and the constructor part of C15.                *)
(* Test inputs that need curve arithmetic are constructor terms            *)
(* <<"mkxy", kem, recipe, i>> / <<"mksk", kem, recipe, i>> which the       *)
(* oracle builds (and classifies independently from the SEC1 definition).  *)
(***************************************************************************)
EXTENDS HpkeCodec, Json

CONSTANTS Part,        \* "nist" | "sizes" | "lengths" | "psk" | "kdf"
          KemSet, NPer,  \* KEMs, number of seeded inputs per recipe
          AllTags,     \* TRUE: every leading byte 0..255, FALSE: a few
          Emit

VARIABLE last

EmptyF == [x \in {} |-> <<>>]
Rec(op, plain, bytes, res, out) ==
    [op |-> op, c |-> "", form |-> "", plain |-> plain, bytes |-> bytes, kind |-> res.kind, err |-> res.err,
     payload |-> res.payload, out |-> out, outn |-> EmptyF,
     pre |-> [seq |-> <<>>, ovf |-> FALSE], post |-> [seq |-> <<>>, ovf |-> FALSE], untouched |-> FALSE]
R(kind, err) == [kind |-> kind, err |-> err, payload |-> <<>>]

Ncoord(kem) == Nsk(kem)
\* recipes for the coordinate pair: name -> <<x in range, y in range, on curve>>
XyRecipes(kem) ==
    {<<"point", TRUE, TRUE, TRUE>>, <<"negpoint", TRUE, TRUE, TRUE>>,
     <<"yplus1", TRUE, TRUE, FALSE>>, <<"otherb", TRUE, TRUE, FALSE>>, <<"twistx", TRUE, TRUE, FALSE>>,
     <<"zerozero", TRUE, TRUE, FALSE>>, <<"swapxy", TRUE, TRUE, FALSE>>,
     <<"xplusp", FALSE, TRUE, TRUE>>, <<"xmax", FALSE, TRUE, FALSE>>, <<"ymax", TRUE, FALSE, FALSE>>,
     <<"xisp", FALSE, TRUE, FALSE>>, <<"yisp", TRUE, FALSE, FALSE>>}
    \cup (IF kem = KEM_P521 THEN {<<"yplusp", TRUE, FALSE, TRUE>>} ELSE {})
Xy(kem, rc, i) == T(<<"mkxy", kem, rc, i>>, 2 * Ncoord(kem))
Tags == IF AllTags THEN 0..255 ELSE {0, 2, 3, 4, 5, 6, 7, 255}

PkInput(kem, tg, rc, i) == Cat(Lit(<<tg>>), Xy(kem, rc[1], i))
NistPkRec(kem, ty, tg, rc, i) ==
    \* right length: every leading byte x every recipe
    LET inp == PkInput(kem, tg, rc, i) res == DeserNistPk(kem, BLen(inp), tg, rc[2], rc[3], rc[4])
    IN Rec("from_bytes", [ty |-> ty, kem |-> kem], [bytes |-> inp], res,
           IF res.kind = "ok" THEN [reser |-> inp] ELSE EmptyF)
\* wrong lengths: prefixes / extensions of a VALID encoding, and compressed / hybrid forms of a valid point
NistPkWrongLenInputs(kem) ==
    {Take(PkInput(kem, 4, <<"point">>, 1), n) : n \in {0, 1, Ncoord(kem), Ncoord(kem) + 1, Npk(kem) - 1}}
    \cup {Cat(PkInput(kem, 4, <<"point">>, 1), Lit(Zeros(n))) : n \in {1, Npk(kem)}}
    \cup {Cat(Lit(<<tg>>), Take(Xy(kem, "point", i), Ncoord(kem))) : tg \in {2, 3}, i \in 1..NPer}
NistPkWrongLenRec(kem, ty, w) ==
    Rec("from_bytes", [ty |-> ty, kem |-> kem], [bytes |-> w], DeserNistPk(kem, BLen(w), 4, TRUE, TRUE, TRUE), EmptyF)

SkRecipes(kem) == {<<"zero", FALSE>>, <<"one", TRUE>>, <<"mid", TRUE>>, <<"nminus1", TRUE>>, <<"n", FALSE>>,
                   <<"nplus1", FALSE>>, <<"max", FALSE>>, <<"nplusmid", FALSE>>}
                  \cup (IF kem = KEM_P521 THEN {<<"bit520", TRUE>>, <<"bit521", FALSE>>, <<"bit527", FALSE>>} ELSE {})
Sk(kem, rc, i) == T(<<"mksk", kem, rc, i>>, Nsk(kem))
NistSkRec(kem, rc, i) ==
    LET inp == Sk(kem, rc[1], i) res == DeserNistSk(kem, Nsk(kem), rc[2])
    IN Rec("from_bytes", [ty |-> "sk", kem |-> kem], [bytes |-> inp], res,
           IF res.kind = "ok" THEN [reser |-> inp] ELSE EmptyF)
NistSkWrongLenInputs(kem) ==
    {Take(Sk(kem, "mid", 1), n) : n \in {0, 1, Nsk(kem) - 1}}
    \cup {Cat(Sk(kem, "mid", 1), Lit(Zeros(n))) : n \in {1, Nsk(kem)}}
    \cup {Cat(Lit(Zeros(n)), Sk(kem, "mid", 1)) : n \in {1}}
NistSkWrongLenRec(kem, w) ==
    Rec("from_bytes", [ty |-> "sk", kem |-> kem], [bytes |-> w], DeserNistSk(kem, BLen(w), TRUE), EmptyF)

(***************************** sizes (C12) **********************************)
KeyTypes == {"pk", "sk", "enc"}
\* a value of each type, as the byte string a correct serialiser produces for it
KP(name, kem) == DeriveKeyPair(kem, Leaf("ikm" \o name \o ToString(kem), Nsk(kem)))
ValueOf(ty, alg) == CASE ty = "pk" -> KP("A", alg).pk [] ty = "enc" -> KP("B", alg).pk [] ty = "sk" -> KP("A", alg).sk
                      [] ty = "tag" -> Leaf("tag" \o ToString(alg), Nt(alg))
AlgField(ty, alg) == IF ty = "tag" THEN [ty |-> ty, aead |-> alg] ELSE [ty |-> ty, kem |-> alg]
TypesAlgs == (KeyTypes \X KemSet) \cup ({"tag"} \X Aeads)

SizeCalls ==
    {[Rec("size", AlgField(ta[1], ta[2]), EmptyF, R("ok", ""), EmptyF) EXCEPT !.outn = [size |-> SizeOf(ta[1], ta[2])]]
     : ta \in TypesAlgs}
RoundTripCalls ==
    {Rec("from_bytes", AlgField(ta[1], ta[2]), [bytes |-> ValueOf(ta[1], ta[2])], R("ok", ""),
         [reser |-> ValueOf(ta[1], ta[2])]) : ta \in TypesAlgs}
\* the lengths tried against a value of `size` bytes: every length 0..2*size+2, and the wrong lengths that are congruent to
\* the right one modulo 2^8, 2^9 and 2^16 (a length compared after a truncating cast looks right there)
LenRange(size) == (0..(2 * size + 2)) \cup {size + 256, size + 512, size + 768, size + 65536, size + 131072}
WriteExactCalls ==
    UNION {{LET size == SizeOf(ta[1], ta[2]) v == ValueOf(ta[1], ta[2])
            IN Rec("write_exact", AlgField(ta[1], ta[2]) @@ [buflen |-> n], [bytes |-> v],
                   R(WriteExactKind(size, n), ""), IF n = size THEN [buf |-> v] ELSE EmptyF)
            : n \in LenRange(SizeOf(ta[1], ta[2]))} : ta \in TypesAlgs}
\* every input length 0..2*size+2 (content: a valid value cut or zero-extended, or arbitrary bytes)
WrongLenCalls ==
    UNION {{LET size == SizeOf(ta[1], ta[2])
                v == ValueOf(ta[1], ta[2])
                inp == IF n <= size THEN Take(v, n) ELSE Cat(v, Lit(Zeros(n - size)))
                res == DeserByLen(size, n)
            IN Rec("from_bytes", AlgField(ta[1], ta[2]), [bytes |-> inp], res, IF n = size THEN [reser |-> inp] ELSE EmptyF)
            : n \in LenRange(SizeOf(ta[1], ta[2]))} : ta \in TypesAlgs}
\* `==` on public and private keys is equality of the values (C12: "deserializing those bytes yields an equal value"):
\* a value equals itself and its clone, two independently derived keys differ, and so do private keys that differ in a
\* single bit (positions that survive X25519 clamping and keep a NIST scalar in range)
Bool(b) == Lit(<<IF b THEN 1 ELSE 0>>)
EqRec(ty, kem, a, b) ==
    Rec("key_eq", [ty |-> ty, kem |-> kem], [a |-> a, b |-> b], R("ok", ""),
        [eq |-> Bool(a = b), sym |-> Bool(a = b), clone |-> Bool(TRUE)])
EqCalls ==
    UNION {{EqRec(ty, kem, ValueOf(ty, kem), ValueOf(ty, kem)),
            EqRec(ty, kem, ValueOf(ty, kem), IF ty = "pk" THEN KP("B", kem).pk ELSE KP("B", kem).sk)}
           : ty \in {"pk", "sk"}, kem \in KemSet}
    \cup UNION {{EqRec("sk", kem, ValueOf("sk", kem), Flip(ValueOf("sk", kem), b))
                 : b \in {8 * 15, 8 * 15 + 7, 8 * (Nsk(kem) - 1) + 1, 8 * (Nsk(kem) - 2) + 5}} : kem \in KemSet}
    \cup (IF KEM_X25519 \in KemSet
          THEN {EqRec("pk", KEM_X25519, ValueOf("pk", KEM_X25519), Flip(ValueOf("pk", KEM_X25519), b)) : b \in {0, 8 * 15 + 3, 8 * 31 + 6}}
          ELSE {})
\* X25519 accepts ANY 32 bytes as public, private or encapsulated key (canonical or not)
X25519Raw ==
    IF KEM_X25519 \in KemSet
    THEN {Rec("from_bytes", [ty |-> ty, kem |-> KEM_X25519], [bytes |-> v], R("ok", ""), [reser |-> v])
          : ty \in KeyTypes, v \in {Lit(Zeros(32)), Lit(Fill(255, 32)), Leaf("raw32a", 32), Leaf("raw32b", 32)}}
    ELSE {}

(*************************** lengths (C13) **********************************)
LenClasses == {0, 1, 15, 16, 17, 31, 32, 33, 63, 64, 65, 66, 67, 96, 97, 98, 132, 133, 134, 65535, 65536, 70000}
LengthCalls ==
    {LET size == SizeOf(ta[1], ta[2])
         inp == Leaf("junk" \o ToString(n), n)
         \* NIST types: junk of the right length is not a valid key (probability 2^-255 resp. ~1/2 for P-256
         \* scalars - so private keys of the right length are left to the "nist" part)
         res == IF n # size THEN DeserByLen(size, n)
                ELSE IF ta[1] \in {"pk", "enc"} /\ ta[2] \in NistKems THEN [kind |-> "err", err |-> E_VAL, payload |-> <<>>]
                ELSE R("ok", "")
     IN Rec("from_bytes", AlgField(ta[1], ta[2]), [bytes |-> inp], res, EmptyF)
     : ta \in {x \in TypesAlgs : ~(x[1] = "sk" /\ x[2] \in NistKems)}, n \in LenClasses}
    \cup
    {LET size == Nsk(kem) inp == Leaf("junk" \o ToString(n), n)
     IN Rec("from_bytes", [ty |-> "sk", kem |-> kem], [bytes |-> inp], DeserByLen(size, n), EmptyF)
     : kem \in NistKems \cap KemSet, n \in LenClasses \ {32, 48, 66}}

(**************************** KDF helpers ***********************************)
KdfCalls ==
    {LET h == KdfHash(k) sid == Leaf("sid" \o ToString(ns), ns) lbl == Leaf("lbl" \o ToString(nl), nl)
         salt == Leaf("salt" \o ToString(nx), nx) ikm == Leaf("ikmk" \o ToString(ni), ni)
     IN Rec("kdf_labeled_extract", [kdf |-> k], [salt |-> salt, suite_id |-> sid, label |-> lbl, ikm |-> ikm],
            R("ok", ""), [prk |-> Extract(h, salt, Cat(Cat(Cat(Lit(L_HPKE_v1), sid), lbl), ikm))])
     : k \in Kdfs, ns \in {0, 5, 10, 300}, nl \in {0, 7}, nx \in {0, 32, 200}, ni \in {0, 32, 70000}}
    \cup
    {LET h == KdfHash(k) sid == Leaf("sid" \o ToString(ns), ns) info == Leaf("kinfo" \o ToString(nf), nf)
         ikm == Leaf("ikmk" \o ToString(ni), ni)
         eae == Extract(h, <<>>, Cat(Cat(Cat(Lit(L_HPKE_v1), sid), Lit(L_eae_prk)), ikm))
         ok == L <= 255 * Nh(h)
     IN Rec("kdf_extract_and_expand", [kdf |-> k, len |-> L], [ikm |-> ikm, suite_id |-> sid, info |-> info],
            IF ok THEN R("ok", "") ELSE R("err", "InvalidLength"),
            IF ok THEN [out |-> Expand(h, eae, Cat(Cat(Cat(Cat(Lit(I2OSP2(L)), Lit(L_HPKE_v1)), sid), Lit(L_shared_secret)), info), L)]
            ELSE EmptyF)
     : k \in Kdfs, ns \in {0, 5, 300}, nf \in {0, 65, 70000}, ni \in {0, 32, 200},
       L \in {0, 1, 32, 64, 255 * 32, 255 * 32 + 1, 255 * 64, 255 * 64 + 1, 65535, 65536, 70000}}

(****************************** PSK bundle ***********************************)
PskLens == {0, 1, 2, 31, 32, 33, 64, 255, 256, 257, 512, 1000, 65535, 65536, 70000}
\* the rule is about EMPTINESS, not content: all-zero and all-ones strings are ordinary non-empty values
PskContents(name, n) == {Leaf(name \o ToString(n), n)} \cup (IF n \in {1, 2, 32} THEN {Lit(Zeros(n)), Lit(Fill(255, n))} ELSE {})
PskCalls ==
    UNION {{LET r == PskBundleNew(psk, id)
            IN Rec("psk_bundle_new", EmptyF, [psk |-> psk, psk_id |-> id], [kind |-> r.kind, err |-> r.err, payload |-> <<>>], EmptyF)
            : psk \in PskContents("psk", ab[1]), id \in PskContents("pskid", ab[2])} : ab \in PskLens \X PskLens}

NistNext ==
    \E kem \in KemSet \cap NistKems :
        \/ \E ty \in {"pk", "enc"}, tg \in Tags, rc \in XyRecipes(kem), i \in 1..NPer : last' = NistPkRec(kem, ty, tg, rc, i)
        \/ \E ty \in {"pk", "enc"}, w \in NistPkWrongLenInputs(kem) : last' = NistPkWrongLenRec(kem, ty, w)
        \/ \E rc \in SkRecipes(kem), i \in 1..NPer : last' = NistSkRec(kem, rc, i)
        \/ \E w \in NistSkWrongLenInputs(kem) : last' = NistSkWrongLenRec(kem, w)

Calls == CASE Part = "sizes"   -> SizeCalls \cup RoundTripCalls \cup WriteExactCalls \cup WrongLenCalls \cup X25519Raw \cup EqCalls
           [] Part = "lengths" -> LengthCalls
           [] Part = "kdf"     -> KdfCalls
           [] Part = "psk"     -> PskCalls

Init == last = [op |-> "init"]
Next == IF Part = "nist" THEN NistNext ELSE \E c \in Calls : last' = c
vars == <<last>>
ViewNone == 0

(***************************************************************************)
(* Spec-level: Ok is returned only for the canonical uncompressed encoding *)
(* of a curve point / a scalar in range, and then re-serialisation returns *)
(* the input; every refusal carries the right error.                       *)
(***************************************************************************)
OkOnlyIfValid ==
    (last'.op = "from_bytes" /\ last'.kind = "ok") => (BLen(last'.bytes.bytes) = SizeOf(last'.plain.ty,
          IF last'.plain.ty = "tag" THEN last'.plain.aead ELSE last'.plain.kem)
        /\ (last'.out = EmptyF \/ last'.out.reser = last'.bytes.bytes))
LenErrorPayload ==
    (last'.op = "from_bytes" /\ last'.err = E_LEN) =>
        last'.payload = <<SizeOf(last'.plain.ty, IF last'.plain.ty = "tag" THEN last'.plain.aead ELSE last'.plain.kem),
                          BLen(last'.bytes.bytes)>>
NoPanicOnBytes == last'.op \in {"from_bytes", "psk_bundle_new", "kdf_labeled_extract", "kdf_extract_and_expand"}
                    => last'.kind # "panic"
CheckCalls == /\ Assert(OkOnlyIfValid, "OkOnlyIfValid") /\ Assert(LenErrorPayload, "LenErrorPayload")
              /\ Assert(NoPanicOnBytes, "NoPanicOnBytes")
EmitTr == Emit => PrintT(ToJson([last |-> last']))
=============================================================================
