INIT Init
NEXT Next
CONSTANTS
  KemSet = {32}
  KdfSet = {1}
  AeadSet = {1, 65535}
  ModeSet = {0, 1, 2, 3}
  Vals = "small"
  Perturb = {"none", "info", "psk", "pskid", "mode", "kdf", "aead", "skr", "enc", "pks", "shift"}
  Impost = FALSE
  ShotsOnly = FALSE
  ShotDl = "tamper"
  Twin = FALSE
  BadPkR = "none"
  Shape = "all"
  SweepMax = 0
  SweepExtra = {}
  Emit = FALSE
  EmitWiring = FALSE
  Ordered = TRUE
  SetupSMenu <- MC_SetupSMenu
  SetupRMenu <- MC_SetupRMenu
  RawMenu = {}
  SeqMenu <- MC_SeqMenu
  PtMenu <- MC_PtMenu
  AadMenu <- MC_AadMenu
  FormMenu = {"alloc"}
  DeliveryMenu <- MC_DeliveryMenu
  ExportMenu <- MC_ExportMenu
  ShotSMenu <- MC_ShotSMenu
  ShotRMenu <- MC_ShotRMenu
  MaxSeals = 0
  MaxOpens = 0
  MaxExports = 0
  MaxSetSeq = 0
  MaxShots = 0
  OvfFirstInOpen = TRUE
  HugeSeals = FALSE
  RecordHist = FALSE
  HistLen = 0
INVARIANTS
  Binding AuthSound PskSound
VIEW CoreView
ACTION_CONSTRAINT InOrder CheckLast CheckSetup EmitTr
CHECK_DEADLOCK FALSE
