INIT Init
NEXT Next
CONSTANTS
  KemSet = {32, 16, 17, 18}
  NIkm = 2
  IkmSweep = 0
  SmallOrder = TRUE
  Emit = FALSE
VIEW ViewNone
ACTION_CONSTRAINT CheckCalls EmitTr
CHECK_DEADLOCK FALSE
