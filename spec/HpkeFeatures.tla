---------------------------- MODULE HpkeFeatures ----------------------------
(***************************************************************************)
(* The crate's feature lattice (C17): every subset of the six cargo        *)
(* features, with the API surface and the KEMs each must provide.          *)
(*   in-place API (setup_*, seal/open_in_place_detached, export,           *)
(*                 single_shot_*_in_place_detached)        always          *)
(*   allocating API (seal, open, single_shot_seal/open)    iff alloc or std *)
(*   KEM k                                                 iff its feature  *)
(*   impl std::error::Error for HpkeError                  iff std          *)
(* The verification guard adds the verif_* items and nothing else.         *)
(***************************************************************************)
EXTENDS Naturals, FiniteSets, TLC, Json

Features == {"alloc", "std", "x25519", "p256", "p384", "p521"}
KemFeature == [x25519 |-> 32, p256 |-> 16, p384 |-> 17, p521 |-> 18]
KemFeatures == {"x25519", "p256", "p384", "p521"}

VARIABLES F, guard

Api(f, g) ==
    [features |-> f,
     guard |-> g,
     inplace |-> TRUE,
     allocating |-> ("alloc" \in f \/ "std" \in f),
     kems |-> {KemFeature[k] : k \in f \cap KemFeatures},
     std_error |-> "std" \in f,
     verif_items |-> g,
     \* the crate's known-answer tests are compiled only with std and all four KEMs
     kat_compiled |-> ({"std"} \cup KemFeatures) \subseteq f]

Init == F \in SUBSET Features /\ guard \in BOOLEAN
Next == UNCHANGED <<F, guard>>

\* adding a feature never removes anything from the surface
Monotone ==
    \A f \in SUBSET Features : \A x \in Features :
        LET a == Api(f, FALSE) b == Api(f \cup {x}, FALSE)
        IN (a.allocating => b.allocating) /\ a.kems \subseteq b.kems /\ (a.std_error => b.std_error)
\* the in-place interfaces do not depend on any feature; the allocating ones exactly on alloc/std
SurfaceRule ==
    \A f \in SUBSET Features :
        /\ Api(f, FALSE).inplace
        /\ Api(f, FALSE).allocating = (f \cap {"alloc", "std"} # {})
        /\ Cardinality(Api(f, FALSE).kems) = Cardinality(f \cap KemFeatures)
ASSUME Monotone /\ SurfaceRule

Emit == PrintT(ToJson(Api(F, guard)))
=============================================================================
