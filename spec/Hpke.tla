-------------------------------- MODULE Hpke --------------------------------
(***************************************************************************)
(* RFC 9180 HPKE as implemented by rust-hpke: the system.                  *)
(*                                                                         *)
(* State: a set of live encryption contexts (each: role, suite, key        *)
(* material as symbolic bytes, 64-bit counter, overflow latch), the        *)
(* history of messages each sender sealed and of plaintexts each receiver  *)
(* accepted, and the record of the last API call.                          *)
(* One action per public API call (plus the two verification hooks, named  *)
(* as such).  Every action is a thin wrapper around the pure step          *)
(* operators of HpkeCtx / HpkeSchedule / HpkeKem.                          *)
(* The environment (which calls are made with which arguments, what the    *)
(* adversary delivers) is supplied by "menus": constant operators that the *)
(* MC_* modules define.                                                    *)
(***************************************************************************)
EXTENDS HpkeCtx

CONSTANTS
    SetupSMenu(_),     \* ctx -> set of [c, p]: sender setups the environment may perform now
    SetupRMenu(_),     \* ctx -> set of [c, p]: receiver setups
    RawMenu,           \* set of [c, role, suite, key, bn, exp]: hook-built contexts
    SeqMenu,           \* set of [seq, ovf]: values the counter hook may install
    PtMenu(_), AadMenu(_), \* plaintexts / associated data for the n-th Seal of a context (n from 0)
    FormMenu,          \* subset of {"alloc", "detached"}
    DeliveryMenu(_),   \* sent -> set of delivery descriptors (see Deliver)
    ExportMenu,        \* set of <<exporter_context, L>>
    ShotSMenu(_, _),   \* ctx, shots -> set of [p, pt, aad]: single-shot seals
    ShotRMenu(_, _),   \* ctx, shots -> set of [p, d]: single-shot opens (d a delivery descriptor)
    MaxSeals, MaxOpens, MaxExports, MaxSetSeq, MaxShots,
    OvfFirstInOpen,    \* TRUE: allocating open checks the latch before the length (see D5)
    HugeSeals,         \* TRUE: the environment may also try to seal an impossibly long plaintext
    RecordHist         \* TRUE: keep the whole behaviour in `hist` (generation runs only)

VARIABLES
    ctx,       \* [live context ids -> context record]
    sent,      \* [sender ids -> sequence of messages sealed successfully]
    rcvd,      \* [receiver ids -> sequence of [seq, pt, aad] accepted]
    shots,     \* sequence of single-shot seal results (messages with their enc)
    used,      \* [action kind -> how often it was taken] (bounds the model)
    last,      \* the last call: op, context, arguments, result, state before and after
    hist       \* sequence of `last` records (only when RecordHist)

vars == <<ctx, sent, rcvd, shots, used, last, hist>>
\* everything except the record of the last call (used as VIEW: `last` is an observation, it adds no behaviour)
CoreView == <<ctx, sent, rcvd, shots, used, hist>>

Live      == DOMAIN ctx
Senders   == {c \in Live : ctx[c].role = "S"}
Receivers == {c \in Live : ctx[c].role = "R"}

SeqState(st) == [seq |-> st.seq, ovf |-> st.ovf]
NoState      == [seq |-> <<>>, ovf |-> FALSE]

Put(f, k, v) == [x \in DOMAIN f \cup {k} |-> IF x = k THEN v ELSE f[x]]

Count(kind) == used[kind]
Bump(kind)  == used' = [used EXCEPT ![kind] = @ + 1]

Record(r) ==
    /\ last' = r
    /\ hist' = IF RecordHist THEN Append(hist, r) ELSE hist

(***************************************************************************)
(* Setup (section 5.1).  p = [suite, mode, pkR, info, psk, pskId, skS, pkS, rng] *)
(* resp. [suite, mode, skR, enc, info, psk, pskId, pkS].                   *)
(***************************************************************************)
\* the mode-dependent arguments of a call (the API has no slot for the others)
EmptyF == [x \in {} |-> <<>>]
ModeBytesS(p) == (IF p.mode \in PskModes THEN [psk |-> p.psk, psk_id |-> p.pskId] ELSE EmptyF)
                 @@ (IF p.mode \in AuthModes THEN [sk_s |-> p.skS, pk_s |-> p.pkS] ELSE EmptyF)
ModeBytesR(p) == (IF p.mode \in PskModes THEN [psk |-> p.psk, psk_id |-> p.pskId] ELSE EmptyF)
                 @@ (IF p.mode \in AuthModes THEN [pk_s |-> p.pkS] ELSE EmptyF)

\* Keys and encapsulated keys reach the API through their deserialisers: a wrong length is refused there
\* with IncorrectInputLength(expected, given) before any setup runs (first mismatch in argument order).
LenErr(want, bs) == [kind |-> "err", err |-> E_LEN, payload |-> <<want, BLen(bs)>>]
NoErr == [kind |-> "ok", err |-> "", payload |-> <<>>]
DeserS(p) ==
    LET kem == p.suite[1] IN
    IF BLen(p.pkR) # Npk(kem) THEN LenErr(Npk(kem), p.pkR)
    ELSE IF p.mode \in AuthModes /\ BLen(p.skS) # Nsk(kem) THEN LenErr(Nsk(kem), p.skS)
    ELSE IF p.mode \in AuthModes /\ BLen(p.pkS) # Npk(kem) THEN LenErr(Npk(kem), p.pkS)
    ELSE NoErr
DeserR(p) ==
    LET kem == p.suite[1] IN
    IF BLen(p.skR) # Nsk(kem) THEN LenErr(Nsk(kem), p.skR)
    ELSE IF BLen(p.enc) # Nenc(kem) THEN LenErr(Nenc(kem), p.enc)
    ELSE IF p.mode \in AuthModes /\ BLen(p.pkS) # Npk(kem) THEN LenErr(Npk(kem), p.pkS)
    ELSE NoErr

SetupSStep(p) ==
    LET kem == p.suite[1]
        idS == IF p.mode \in AuthModes THEN Id(p.skS, p.pkS) ELSE NoId
        de  == DeserS(p)
    IN  IF de.kind = "err" THEN [kind |-> "err", err |-> de.err, payload |-> de.payload, enc |-> <<>>, km |-> <<>>]
        ELSE IF p.mode \in PskModes /\ ~PskBundleOk(p.psk, p.pskId)
        THEN [kind |-> "err", err |-> "InvalidPskBundle", payload |-> <<>>, enc |-> <<>>, km |-> <<>>]
        ELSE LET e == Encap(kem, p.pkR, idS, p.rng)
             IN  IF ~e.ok THEN [kind |-> "err", err |-> E_ENC, payload |-> <<>>, enc |-> <<>>, km |-> <<>>]
                 ELSE [kind |-> "ok", err |-> "", payload |-> <<>>, enc |-> e.enc,
                       km |-> KeySchedule(p.suite, p.mode, e.ss, p.info, p.psk, p.pskId)]

SetupRStep(p) ==
    LET kem == p.suite[1]
        pkS == IF p.mode \in AuthModes THEN SomePk(p.pkS) ELSE NoPk
        de  == DeserR(p)
    IN  IF de.kind = "err" THEN [kind |-> "err", err |-> de.err, payload |-> de.payload, km |-> <<>>]
        ELSE IF p.mode \in PskModes /\ ~PskBundleOk(p.psk, p.pskId)
        THEN [kind |-> "err", err |-> "InvalidPskBundle", payload |-> <<>>, km |-> <<>>]
        ELSE LET d == Decap(kem, p.skR, pkS, p.enc)
             IN  IF ~d.ok THEN [kind |-> "err", err |-> E_DEC, payload |-> <<>>, km |-> <<>>]
                 ELSE [kind |-> "ok", err |-> "", payload |-> <<>>,
                       km |-> KeySchedule(p.suite, p.mode, d.ss, p.info, p.psk, p.pskId)]

SetupSRec(c, p, r) ==
    [op |-> "setup_s", c |-> c, form |-> "",
     plain |-> [suite |-> p.suite, mode |-> p.mode],
     bytes |-> [pk_r |-> p.pkR, info |-> p.info, rng |-> p.rng] @@ ModeBytesS(p),
     kind |-> r.kind, err |-> r.err, payload |-> r.payload,
     out |-> [enc |-> r.enc], outn |-> [drawn |-> Nsk(p.suite[1])],
     pre |-> NoState,
     post |-> IF r.kind = "ok" THEN [seq |-> Seq0, ovf |-> FALSE] ELSE NoState,
     untouched |-> FALSE]

SetupRRec(c, p, r) ==
    [op |-> "setup_r", c |-> c, form |-> "",
     plain |-> [suite |-> p.suite, mode |-> p.mode],
     bytes |-> [sk_r |-> p.skR, enc |-> p.enc, info |-> p.info] @@ ModeBytesR(p),
     kind |-> r.kind, err |-> r.err, payload |-> r.payload, out |-> EmptyF, outn |-> EmptyF,
     pre |-> NoState,
     post |-> IF r.kind = "ok" THEN [seq |-> Seq0, ovf |-> FALSE] ELSE NoState,
     untouched |-> FALSE]

\* `made` is a ghost field: the calls that created the context (lets a test re-create any state)
SetupS(c, p) ==
    /\ c \notin Live
    /\ LET r == SetupSStep(p)
           rec == SetupSRec(c, p, r)
       IN  /\ IF r.kind = "ok"
              THEN /\ ctx'  = Put(ctx, c, NewCtx("S", p.suite, r.km, p) @@ [made |-> <<rec>>])
                   /\ sent' = Put(sent, c, <<>>)
              ELSE UNCHANGED <<ctx, sent>>
           /\ Record(rec)
    /\ UNCHANGED <<rcvd, shots, used>>

SetupR(c, p) ==
    /\ c \notin Live
    /\ LET r == SetupRStep(p)
           rec == SetupRRec(c, p, r)
       IN  /\ IF r.kind = "ok"
              THEN /\ ctx'  = Put(ctx, c, NewCtx("R", p.suite, r.km, p) @@ [made |-> <<rec>>])
                   /\ rcvd' = Put(rcvd, c, <<>>)
              ELSE UNCHANGED <<ctx, rcvd>>
           /\ Record(rec)
    /\ UNCHANGED <<sent, shots, used>>

(***************************************************************************)
(* Verification hooks (cfg hpke_verif), named: a context built directly    *)
(* from key material, and a jump of the counter.                           *)
(***************************************************************************)
RawCtxOf0(m) == NewCtx(m.role, m.suite, [key |-> m.key, bn |-> m.bn, exp |-> m.exp], [raw |-> TRUE])
RawCtxRec(m) ==
    [op |-> "raw_ctx", c |-> m.c, form |-> "",
     plain |-> [suite |-> m.suite, role |-> m.role],
     bytes |-> [key |-> m.key, base_nonce |-> m.bn, exporter_secret |-> m.exp],
     kind |-> "ok", err |-> "", out |-> [x \in {} |-> <<>>], outn |-> [x \in {} |-> 0],
     pre |-> NoState, post |-> [seq |-> Seq0, ovf |-> FALSE], untouched |-> FALSE]
SetSeqRec(c, pre, v) ==
    [op |-> "set_seq", c |-> c, form |-> "",
     plain |-> [seq |-> v.seq, ovf |-> v.ovf], bytes |-> [x \in {} |-> <<>>],
     kind |-> "ok", err |-> "", out |-> [x \in {} |-> <<>>], outn |-> [x \in {} |-> 0],
     pre |-> pre, post |-> v, untouched |-> FALSE]

RawCtxOf(m) == RawCtxOf0(m) @@ [made |-> <<RawCtxRec(m)>>]
\* a hook-built context put at counter state v before anything else happens to it
RawCtxAt(m, v) == [RawCtxOf0(m) EXCEPT !.seq = v.seq, !.ovf = v.ovf]
                  @@ [made |-> <<RawCtxRec(m), SetSeqRec(m.c, [seq |-> Seq0, ovf |-> FALSE], v)>>]

HookRawCtx(m) ==
    /\ m.c \notin Live
    /\ ctx' = Put(ctx, m.c, RawCtxOf(m))
    /\ IF m.role = "S" THEN sent' = Put(sent, m.c, <<>>) /\ UNCHANGED rcvd
                       ELSE rcvd' = Put(rcvd, m.c, <<>>) /\ UNCHANGED sent
    /\ Record(RawCtxRec(m))
    /\ UNCHANGED <<shots, used>>

HookSetSeq(c, v) ==
    /\ c \in Live
    /\ Count("setseq") < MaxSetSeq
    /\ Bump("setseq")
    \* (the jump is remembered with the calls that created the context, so that a test can re-create the state)
    /\ ctx' = [ctx EXCEPT ![c].seq = v.seq, ![c].ovf = v.ovf,
                          ![c].made = Append(@, SetSeqRec(c, SeqState(ctx[c]), v))]
    /\ Record(SetSeqRec(c, SeqState(ctx[c]), v))
    /\ UNCHANGED <<sent, rcvd, shots>>

(***************************************************************************)
(* Seal (both forms)                                                       *)
(***************************************************************************)
Seal(c, pt, aad, form) ==
    /\ c \in Senders
    /\ Count("seal") < MaxSeals
    /\ Bump("seal")
    /\ LET r == IF form = "alloc" THEN SealAllocStep(ctx[c], pt, aad) ELSE SealStep(ctx[c], pt, aad)
           d == SealStep(ctx[c], pt, aad)
           rec == [op |-> "seal", c |-> c, form |-> form,
                   plain |-> [x \in {} |-> 0], bytes |-> [pt |-> pt, aad |-> aad],
                   kind |-> r.kind, err |-> r.err,
                   out |-> IF form = "alloc" THEN [ct |-> r.ct] ELSE [ct |-> r.ct, tag |-> r.tag],
                   outn |-> [x \in {} |-> 0],
                   pre |-> SeqState(ctx[c]), post |-> SeqState(r.st),
                   untouched |-> ~r.touched]
       IN  /\ ctx' = [ctx EXCEPT ![c] = r.st]
           /\ sent' = IF r.kind = "ok"
                      THEN [sent EXCEPT ![c] = Append(@, [seq |-> ctx[c].seq, pt |-> pt, aad |-> aad,
                                                          ct |-> d.ct, tag |-> d.tag, key |-> ctx[c].key,
                                                          ep |-> used["setseq"], nonce |-> NonceOf(ctx[c]),
                                                          \* how a test re-creates this message (form does not matter)
                                                          rec |-> [rec EXCEPT !.form = "detached",
                                                                              !.out = [ct |-> d.ct, tag |-> d.tag]]])]
                      ELSE sent
           /\ Record(rec)
    /\ UNCHANGED <<rcvd, shots>>

(***************************************************************************)
(* A plaintext beyond what the AEAD can take (RFC 5116: AES-GCM at most     *)
(* 2^36 - 31 bytes, ChaCha20Poly1305 at most 2^38 - 64): the AEAD refuses,  *)
(* the library answers SealError - and, being a failure, changes nothing:  *)
(* the counter stays where it is and the next message gets this nonce.     *)
(* (TLC integers cannot hold such lengths; the size is carried as text.)   *)
(***************************************************************************)
HugeLen(aead) == IF aead = AEAD_CHACHA THEN "274877906944" ELSE "68719476737"     \* 2^38, 2^36 + 1
SealHuge(c, aad) ==
    /\ c \in Senders
    /\ ~IsExportOnly(ctx[c])
    /\ Count("seal") < MaxSeals
    /\ Bump("seal")
    /\ LET st == ctx[c]
           r == IF st.ovf THEN [kind |-> "err", err |-> E_MLR] ELSE [kind |-> "err", err |-> E_SEAL]
       IN  Record([op |-> "seal_huge", c |-> c, form |-> "detached",
                   plain |-> [len |-> HugeLen(AeadOf(st))], bytes |-> [aad |-> aad],
                   kind |-> r.kind, err |-> r.err, out |-> EmptyF, outn |-> EmptyF,
                   pre |-> SeqState(st), post |-> SeqState(st), untouched |-> FALSE])
    /\ UNCHANGED <<ctx, sent, rcvd, shots>>

(***************************************************************************)
(* What the adversary can put on the wire.  A descriptor is a record       *)
(* [k, s, i, j, n]: kind, source (a sender id, or "shot" for the single-shot    *)
(* list), message indices i, j (1-based), a number n.  Deliver returns     *)
(* [ok, body, tag, aad]; ok = FALSE when the descriptor does not apply     *)
(* (index out of range, empty string to flip, ...).                        *)
(***************************************************************************)
Msgs(s) == IF s \in DOMAIN sent THEN sent[s] ELSE <<>>
NoDelivery == [ok |-> FALSE, body |-> <<>>, tag |-> <<>>, aad |-> <<>>]
Dlv(b, t, a) == [ok |-> TRUE, body |-> b, tag |-> t, aad |-> a]

DeliverFrom(ms, d) ==
    IF ~(d.i \in 1..Len(ms)) THEN NoDelivery
    ELSE LET m == ms[d.i]
             whole == Cat(m.ct, m.tag)
             wl == BLen(whole)
             nt == BLen(m.tag)
         IN CASE d.k = "msg"     -> Dlv(m.ct, m.tag, m.aad)
              [] d.k = "flipct"  -> IF d.n < 8 * BLen(m.ct) THEN Dlv(Flip(m.ct, d.n), m.tag, m.aad) ELSE NoDelivery
              [] d.k = "fliptag" -> IF d.n < 8 * nt THEN Dlv(m.ct, Flip(m.tag, d.n), m.aad) ELSE NoDelivery
              [] d.k = "flipaad" -> IF d.n < 8 * BLen(m.aad) THEN Dlv(m.ct, m.tag, Flip(m.aad, d.n)) ELSE NoDelivery
              \* remove the last / first n bytes of ciphertext||tag; the last Nt bytes that remain are the tag
              [] d.k = "trunc"   -> IF d.n \in 1..wl
                                    THEN LET w == Take(whole, wl - d.n) l == wl - d.n
                                         IN IF l >= nt THEN Dlv(Take(w, l - nt), Drop(w, l - nt), m.aad)
                                            ELSE Dlv(w, <<>>, m.aad)       \* shorter than a tag
                                    ELSE NoDelivery
              [] d.k = "truncfront" -> IF d.n \in 1..wl
                                    THEN LET w == Drop(whole, d.n) l == wl - d.n
                                         IN IF l >= nt THEN Dlv(Take(w, l - nt), Drop(w, l - nt), m.aad)
                                            ELSE Dlv(w, <<>>, m.aad)
                                    ELSE NoDelivery
              \* append / prepend n zero bytes to ciphertext||tag
              [] d.k = "extend"  -> LET w == Cat(whole, Lit(Zeros(d.n))) l == wl + d.n
                                    IN Dlv(Take(w, l - nt), Drop(w, l - nt), m.aad)
              [] d.k = "prepend" -> LET w == Cat(Lit(Zeros(d.n)), whole) l == wl + d.n
                                    IN Dlv(Take(w, l - nt), Drop(w, l - nt), m.aad)
              \* extra bytes between ciphertext and tag (detached callers can do that)
              [] d.k = "extendbody" -> Dlv(Cat(m.ct, Lit(Zeros(d.n))), m.tag, m.aad)
              [] d.k = "truncbody" -> IF d.n \in 1..BLen(m.ct) THEN Dlv(Take(m.ct, BLen(m.ct) - d.n), m.tag, m.aad) ELSE NoDelivery
              [] d.k = "swaptag" -> IF d.j \in 1..Len(ms) /\ ms[d.j].tag # m.tag THEN Dlv(m.ct, ms[d.j].tag, m.aad) ELSE NoDelivery
              [] d.k = "swapaad" -> IF d.j \in 1..Len(ms) /\ ms[d.j].aad # m.aad THEN Dlv(m.ct, m.tag, ms[d.j].aad) ELSE NoDelivery
              [] d.k = "swapct"  -> IF d.j \in 1..Len(ms) /\ ms[d.j].ct # m.ct /\ BLen(ms[d.j].ct) = BLen(m.ct)
                                    THEN Dlv(ms[d.j].ct, m.tag, m.aad) ELSE NoDelivery
              [] d.k = "emptyaad" -> IF m.aad # <<>> THEN Dlv(m.ct, m.tag, <<>>) ELSE NoDelivery
              \* bytes after the tag (detached callers hand the tag over as its own byte string)
              [] d.k = "extendtag" -> Dlv(m.ct, Cat(m.tag, Lit(Zeros(d.n))), m.aad)
              [] d.k = "tagtwice" -> Dlv(m.ct, Cat(m.tag, m.tag), m.aad)
              [] d.k = "truncaad" -> IF d.n \in 1..BLen(m.aad) THEN Dlv(m.ct, m.tag, Take(m.aad, BLen(m.aad) - d.n)) ELSE NoDelivery
              [] d.k = "extendaad" -> Dlv(m.ct, m.tag, Cat(m.aad, Lit(Zeros(d.n))))
              [] OTHER -> NoDelivery

Deliver(d) ==
    \* arbitrary bytes: n-byte body, j-byte tag, i-byte aad (named leaves: some bytes nobody ever sealed)
    CASE d.k = "garbage" -> Dlv(Leaf("gbody" \o ToString(d.n), d.n), Leaf("gtag" \o ToString(d.j), d.j),
                                Leaf("gaad" \o ToString(d.i), d.i))
      [] d.s = "shot"    -> DeliverFrom(shots, d)
      [] OTHER           -> DeliverFrom(Msgs(d.s), d)

\* does the delivery differ from every message ever sealed?  (the tampered / forged ones)
IsVerbatim(d) == d.k = "msg"

(***************************************************************************)
(* Open (both forms).  The detached form needs a tag of exactly Nt bytes   *)
(* (AeadTag::from_bytes); deliveries that do not have one are only         *)
(* offered to the allocating form, as one byte string.                     *)
(***************************************************************************)
\* the detached tag goes through AeadTag::from_bytes first: a tag of another length never reaches the context
OpenResult(st, dl, form) ==
    IF form = "alloc" THEN OpenAllocStepWith(st, Cat(dl.body, dl.tag), dl.aad, OvfFirstInOpen)
    ELSE IF BLen(dl.tag) # Nt(AeadOf(st))
         THEN [kind |-> "err", err |-> E_LEN, pt |-> <<>>, touched |-> FALSE, st |-> st]
         ELSE OpenStep(st, dl.body, dl.tag, dl.aad)

OpenBytes(c, dl, d, form) ==
    /\ c \in Receivers
    /\ Count("open") < MaxOpens
    /\ LET dummy == 0
       IN  /\ dl.ok
           /\ Bump("open")
           /\ LET r == OpenResult(ctx[c], dl, form)
                  rec == [op |-> "open", c |-> c, form |-> form,
                          plain |-> [d |-> d],
                          bytes |-> IF form = "alloc" THEN [ct |-> Cat(dl.body, dl.tag), aad |-> dl.aad]
                                    ELSE [ct |-> dl.body, tag |-> dl.tag, aad |-> dl.aad],
                          kind |-> r.kind, err |-> r.err, out |-> [pt |-> r.pt],
                          outn |-> [x \in {} |-> 0],
                          pre |-> SeqState(ctx[c]), post |-> SeqState(r.st),
                          untouched |-> ~r.touched]
              IN  /\ ctx' = [ctx EXCEPT ![c] = r.st]
                  /\ rcvd' = IF r.kind = "ok"
                             THEN [rcvd EXCEPT ![c] = Append(@, [seq |-> ctx[c].seq, pt |-> r.pt,
                                                                 aad |-> dl.aad, d |-> d, ep |-> used["setseq"],
                                                                 rec |-> [rec EXCEPT !.form = "detached",
                                                                     !.bytes = [ct |-> dl.body, tag |-> dl.tag, aad |-> dl.aad]]])]
                             ELSE rcvd
                  /\ Record(rec)
    /\ UNCHANGED <<sent, shots>>

\* the delivery is either chosen by the adversary from the menu (d a descriptor) or given as bytes (traces)
Open(c, d, form) == OpenBytes(c, Deliver(d), d, form)


(***************************************************************************)
(* Export                                                                  *)
(***************************************************************************)
Export(c, ectx, L) ==
    /\ c \in Live
    /\ Count("export") < MaxExports
    /\ Bump("export")
    /\ LET r == ExportStep(ctx[c], ectx, L)
       IN  Record([op |-> "export", c |-> c, form |-> "",
                   plain |-> [len |-> L], bytes |-> [exporter_ctx |-> ectx],
                   kind |-> r.kind, err |-> r.err, out |-> [out |-> r.out],
                   outn |-> [x \in {} |-> 0],
                   pre |-> SeqState(ctx[c]), post |-> SeqState(ctx[c]), untouched |-> FALSE])
    /\ UNCHANGED <<ctx, sent, rcvd, shots>>

(***************************************************************************)
(* Single-shot API (section 6): DEFINED as setup followed by one call.     *)
(***************************************************************************)
ShotSealStep(p, pt, aad, form) ==
    LET s == SetupSStep(p)
    IN  IF s.kind # "ok"
        THEN [kind |-> s.kind, err |-> s.err, enc |-> <<>>, ct |-> <<>>, tag |-> <<>>, d |-> <<>>]
        ELSE LET st == NewCtx("S", p.suite, s.km, p)
                 r  == IF form = "alloc" THEN SealAllocStep(st, pt, aad) ELSE SealStep(st, pt, aad)
                 d  == SealStep(st, pt, aad)
             IN  [kind |-> r.kind, err |-> r.err, enc |-> s.enc, ct |-> r.ct, tag |-> r.tag,
                  d |-> [seq |-> Seq0, pt |-> pt, aad |-> aad, ct |-> d.ct, tag |-> d.tag, ep |-> 0,
                         key |-> st.key, nonce |-> NonceOf(st), enc |-> s.enc, p |-> p]]

ShotOpenStep(p, dl, form) ==
    LET s == SetupRStep(p)
    IN  \* the detached tag is an AeadTag: its deserialiser has run before the call is made
        IF form = "detached" /\ BLen(dl.tag) # Nt(p.suite[3]) /\ DeserR(p).kind = "ok"
        THEN [kind |-> "err", err |-> E_LEN, pt |-> <<>>]
        ELSE IF s.kind # "ok" THEN [kind |-> s.kind, err |-> s.err, pt |-> <<>>]
        ELSE LET r == OpenResult(NewCtx("R", p.suite, s.km, p), dl, form)
             IN  [kind |-> r.kind, err |-> r.err, pt |-> r.pt]

SingleShotSeal(m, form) ==
    /\ Count("shot") < MaxShots
    /\ Bump("shot")
    /\ LET p == m.p
           r == ShotSealStep(p, m.pt, m.aad, form)
           rec == [op |-> "single_shot_seal", c |-> "", form |-> form,
                   plain |-> [suite |-> p.suite, mode |-> p.mode],
                   bytes |-> [pk_r |-> p.pkR, info |-> p.info, rng |-> p.rng,
                              pt |-> m.pt, aad |-> m.aad] @@ ModeBytesS(p),
                   kind |-> r.kind, err |-> r.err,
                   out |-> IF form = "alloc" THEN [enc |-> r.enc, ct |-> r.ct]
                           ELSE [enc |-> r.enc, ct |-> r.ct, tag |-> r.tag],
                   outn |-> [drawn |-> Nsk(p.suite[1])],
                   pre |-> NoState, post |-> NoState, untouched |-> FALSE]
       IN  /\ shots' = IF r.kind = "ok" THEN Append(shots, r.d @@ [rec |-> rec]) ELSE shots
           /\ Record(rec)
    /\ UNCHANGED <<ctx, sent, rcvd>>

SingleShotOpenBytes(p, dl, d, form) ==
    /\ Count("shot") < MaxShots
    /\ dl.ok
    /\ Bump("shot")
    /\ LET r == ShotOpenStep(p, dl, form)
       IN Record([op |-> "single_shot_open", c |-> "", form |-> form,
                  plain |-> [suite |-> p.suite, mode |-> p.mode, d |-> d],
                  bytes |-> [sk_r |-> p.skR, enc |-> p.enc, info |-> p.info, aad |-> dl.aad]
                            @@ ModeBytesR(p)
                            @@ (IF form = "alloc" THEN [ct |-> Cat(dl.body, dl.tag)]
                                ELSE [ct |-> dl.body, tag |-> dl.tag]),
                  kind |-> r.kind, err |-> r.err, out |-> [pt |-> r.pt],
                  outn |-> [x \in {} |-> 0],
                  pre |-> NoState, post |-> NoState, untouched |-> FALSE])
    /\ UNCHANGED <<ctx, sent, rcvd, shots>>

SingleShotOpen(m, form) == SingleShotOpenBytes(m.p, Deliver(m.d), m.d, form)

(***************************************************************************)
(* What a one-transition implementation test needs: the calls that created *)
(* every context, every message sealed and accepted so far (the test       *)
(* replays them to re-create the state through the API), and the call.     *)
(***************************************************************************)
RecsOf(q) == [i \in 1..Len(q) |-> q[i].rec]
TransitionRecord ==
    [made |-> [c \in DOMAIN ctx' |-> ctx'[c].made],
     sent |-> [c \in DOMAIN sent' |-> RecsOf(sent'[c])],
     rcvd |-> [c \in DOMAIN rcvd' |-> RecsOf(rcvd'[c])],
     shots |-> RecsOf(shots'),
     last |-> last']

Init ==
    /\ ctx = <<>> /\ sent = <<>> /\ rcvd = <<>> /\ shots = <<>>
    /\ used = [k \in {"seal", "open", "export", "setseq", "shot"} |-> 0]
    /\ last = [op |-> "init"]
    /\ hist = <<>>

Next ==
    \/ \E m \in SetupSMenu(ctx) : SetupS(m.c, m.p)
    \/ \E m \in SetupRMenu(ctx) : SetupR(m.c, m.p)
    \/ \E m \in RawMenu : HookRawCtx(m)
    \/ \E c \in Live, v \in SeqMenu : HookSetSeq(c, v)
    \/ \E c \in Senders : \E pt \in PtMenu(Len(sent[c])), aad \in AadMenu(Len(sent[c])), f \in FormMenu :
            Seal(c, pt, aad, f)
    \/ HugeSeals /\ \E c \in Senders : \E aad \in AadMenu(Len(sent[c])) : SealHuge(c, aad)
    \/ \E c \in Receivers, d \in DeliveryMenu(sent), f \in FormMenu : Open(c, d, f)
    \/ \E c \in Live, e \in ExportMenu : Export(c, e[1], e[2])
    \/ \E m \in ShotSMenu(ctx, shots), f \in FormMenu : SingleShotSeal(m, f)
    \/ \E m \in ShotRMenu(ctx, shots), f \in FormMenu : SingleShotOpen(m, f)

Spec == Init /\ [][Next]_vars

=============================================================================
