------------------------------ MODULE MC_Setup ------------------------------
(***************************************************************************)
(* Bounded instance for setup / key schedule properties (C01 C02 C07 C08   *)
(* C10 C11 C14 C15): one sender setup, one receiver setup that either      *)
(* matches it or differs in exactly one component (or in one of the listed *)
(* two-component "boundary shifts"), a few messages, exports on both sides, *)
(* and the single-shot forms.                                              *)
(***************************************************************************)
EXTENDS HpkeProps, Json

CONSTANTS KemSet, KdfSet, AeadSet, ModeSet,
          Vals,          \* "small": concrete strings over {00, 61} (collision search)
                         \* "leaf" : named leaves of assorted lengths (replay)
          Perturb,       \* set of perturbation kinds offered to the receiver ("none" = matching)
          Twin,          \* TRUE: a second sender "t" with identical parameters and randomness may set up
          BadPkR,        \* "all" | "one" | "none": X25519 senders are also offered small-order (and other raw) recipient keys
          ShotsOnly,     \* TRUE: no streaming contexts at all, only single-shot calls
          ShotDl,        \* "msg": single-shot opens get the verbatim message only; "tamper": also modified ones
          Impost,        \* TRUE: after the honest sender, an impostor sender "i" may set up too (C08)
          SweepMax,      \* Shape "sweep": largest length
          SweepExtra,    \* Shape "sweep": further lengths beyond SweepMax (a sparse continuation of the dense range)
          Shape,         \* "sweep" | "all": every value combination; "one": one combination per (suite, mode)
          EmitWiring,    \* TRUE: print the C15 wiring records
          Emit,          \* TRUE: print every generated transition (and the key-derivation prologue)
          HistLen,       \* print behaviours when hist has this many steps (generation runs)
          Ordered        \* TRUE: calls come in canonical order (cuts interleavings)

(******************************* keys **************************************)
Ikm(name, kem) == Leaf("ikm" \o name \o ToString(kem), Nsk(kem))
KP(name, kem)  == DeriveKeyPair(kem, Ikm(name, kem))
Rng(name, kem) == Leaf("rng" \o name \o ToString(kem), Nsk(kem) + 70)  \* spare bytes: must stay undrawn (C02, C03 check that)

\* all named key pairs a behaviour may mention, for the replay prologue
KeyNames == {"R1", "R2", "S1", "S2", "E2"}
Prologue(kem) ==
    [n \in KeyNames |->
        [op |-> "derive_keypair", c |-> "", form |-> "", plain |-> [kem |-> kem],
         bytes |-> [ikm |-> Ikm(n, kem)], kind |-> "ok", err |-> "",
         out |-> [sk |-> KP(n, kem).sk, pk |-> KP(n, kem).pk], outn |-> EmptyF,
         pre |-> NoState, post |-> NoState, untouched |-> FALSE]]

(****************************** values *************************************)
\* 32-byte strings that are not of small order: u = 2, u = 9 (the base point), a non-canonical u = p + 2,
\* all-ones (u = 2^255 - 1 - ... with bit 255 set), and u = 2^255 - 20 = p - 1 ... is small order, so not here
OtherEncodings == {[i \in 1..32 |-> IF i = 1 THEN 2 ELSE 0], [i \in 1..32 |-> IF i = 1 THEN 9 ELSE 0],
                   [i \in 1..32 |-> IF i = 1 THEN 239 ELSE IF i = 32 THEN 127 ELSE 255],
                   [i \in 1..32 |-> IF i = 1 THEN 3 ELSE IF i = 32 THEN 128 ELSE 0],
                   [i \in 1..32 |-> 255]}
BadKeys == CASE BadPkR = "all" -> SmallOrderEncodings \cup OtherEncodings
             [] BadPkR = "one" -> {SmallOrderBase[7]}
             [] OTHER -> {}


SmallStrings == {<<>>, Lit(<<0>>), Lit(<<97>>), Lit(<<97, 0>>), Lit(<<0, 97>>), Lit(<<97, 97>>)}
\* lengths straddle the hash output and block sizes (32/48/64, 64/128): a value cut at any of them shows
LeafStrings(n) == {<<>>, Leaf(n \o "a", 1), Leaf(n \o "b", 32), Leaf(n \o "c", 65), Leaf(n \o "d", 160)}
LongStrings(n) == {<<>>, Leaf(n \o "1", 1), Leaf(n \o "65535", 65535), Leaf(n \o "65536", 65536), Leaf(n \o "70000", 70000)}
ValsOf(n) == CASE Vals = "small" -> SmallStrings [] Vals = "long" -> LongStrings(n) [] OTHER -> LeafStrings(n)
InfoVals  == ValsOf("info")
PskVals   == ValsOf("psk")
PskIdVals == ValsOf("pskid")
PskPairs  == {pp \in PskVals \X PskIdVals : (pp[1] = <<>>) = (pp[2] = <<>>)}

Suites == KemSet \X KdfSet \X AeadSet

SP(su, mo, inf, pp) ==
    [suite |-> su, mode |-> mo, pkR |-> KP("R1", su[1]).pk, info |-> inf,
     psk |-> IF mo \in PskModes THEN pp[1] ELSE <<>>,
     pskId |-> IF mo \in PskModes THEN pp[2] ELSE <<>>,
     skS |-> IF mo \in AuthModes THEN KP("S1", su[1]).sk ELSE <<>>,
     pkS |-> IF mo \in AuthModes THEN KP("S1", su[1]).pk ELSE <<>>,
     rng |-> Rng("E1", su[1])]
PairsFor(mo) == IF mo \in PskModes THEN PskPairs ELSE {<<<<>>, <<>>>>}
OneInfo == CASE Vals = "small" -> Lit(<<97>>) [] Vals = "long" -> Leaf("info70000", 70000) [] OTHER -> Leaf("infod", 160)
OnePair(mo) == IF mo \in PskModes
               THEN (CASE Vals = "small" -> <<Lit(<<97, 0>>), Lit(<<0>>)>>
                       [] Vals = "long" -> <<Leaf("psk65536", 65536), Leaf("pskid65535", 65535)>>
                       [] OTHER -> <<Leaf("pskd", 160), Leaf("pskidd", 160)>>)
               ELSE <<<<>>, <<>>>>
\* "sweep": one field at a time takes EVERY length 0..SweepMax (a value cut at some internal buffer size shows)
SweepLens == (0..SweepMax) \cup SweepExtra
SweepParams ==
    UNION {{SP(su, mo, Leaf("infoL" \o ToString(n), n), OnePair(mo)) : su \in Suites, n \in SweepLens} : mo \in ModeSet}
    \cup UNION {{SP(su, mo, OneInfo, <<Leaf("pskL" \o ToString(n), n), Leaf("pskidd", 160)>>) : su \in Suites, n \in SweepLens \ {0}}
                : mo \in ModeSet \cap PskModes}
    \cup UNION {{SP(su, mo, OneInfo, <<Leaf("pskd", 160), Leaf("pskidL" \o ToString(n), n)>>) : su \in Suites, n \in SweepLens \ {0}}
                : mo \in ModeSet \cap PskModes}
\* P-256: RNG outputs whose first DeriveKeyPair candidate is out of range (see MC_Kem.tla RejectionWitnesses):
\* the ephemeral key must come from the SECOND candidate
WitnessRngs ==
    {Cat(Lit(w), Leaf("rngspare", 70)) :
        w \in {<<170, 170, 170, 170, 170, 170, 170, 170, 170, 170, 170, 170, 170, 170, 170, 170, 170, 170, 170, 170, 170, 170, 170, 170, 0, 0, 0, 0, 1, 249, 95, 97>>,
               <<170, 170, 170, 170, 170, 170, 170, 170, 170, 170, 170, 170, 170, 170, 170, 170, 170, 170, 170, 170, 170, 170, 170, 170, 0, 0, 0, 0, 119, 87, 50, 23>>}}
WitnessParams ==
    {[SP(su, 0, OneInfo, OnePair(0)) EXCEPT !.rng = r] : su \in {x \in Suites : x[1] = KEM_P256}, r \in WitnessRngs}
ShortPair == IF Vals = "small" THEN <<Lit(<<97>>), Lit(<<97, 0>>)>> ELSE <<Leaf("pska", 1), Leaf("pskidb", 32)>>
BaseSenderParams ==
    IF Shape = "sweep" THEN SweepParams ELSE
    IF Shape = "one"
    THEN {SP(su, mo, OneInfo, OnePair(mo)) : su \in Suites, mo \in ModeSet}
         \* ... and a SHORT psk / psk_id (below every hash block size: zero-padding style collisions only show there)
         \cup {SP(su, mo, OneInfo, ShortPair) : su \in Suites, mo \in ModeSet \cap PskModes}
         \* ONE byte string used as info, psk and psk_id at once (whatever is remembered per field value must keep the
         \* fields apart: each is hashed under its own label)
         \cup {SP(su, mo, Leaf("samestring", 160), <<Leaf("samestring", 160), Leaf("samestring", 160)>>)
                : su \in Suites, mo \in ModeSet \cap PskModes}
         \* deviation D2: a PSK mode with an EMPTY bundle is accepted by the library (and is not Base / Auth)
         \cup {SP(su, mo, OneInfo, <<<<>>, <<>>>>) : su \in Suites, mo \in ModeSet \cap PskModes}
    ELSE UNION {{SP(su, mo, inf, pp) : su \in Suites, inf \in InfoVals, pp \in PairsFor(mo)} : mo \in ModeSet}

SenderParams == BaseSenderParams \cup (IF Shape = "one" THEN WitnessParams ELSE {})

\* the receiver that agrees with sender parameters p
Matching(p) ==
    [suite |-> p.suite, mode |-> p.mode, skR |-> KP("R1", p.suite[1]).sk,
     enc |-> GenKeyPair(p.suite[1], p.rng).pk, info |-> p.info, psk |-> p.psk, pskId |-> p.pskId,
     pkS |-> p.pkS]

\* single-component perturbations (and the listed boundary shifts) of the matching receiver
\* every bit of a short value; of a long one every bit of the bytes at the hash / block boundaries and of the last byte
BoundaryBytes(n) == {0, 15, 16, 31, 32, 47, 48, 63, 64, 127, 128, 129, n - 1} \cap 0..(n - 1)
Bits(v) == IF BLen(v) <= 40 THEN 0..(8 * BLen(v) - 1)
           ELSE {8 * b + k : b \in BoundaryBytes(BLen(v)), k \in 0..7}
Variant(p, k) ==
    LET m == Matching(p) kem == p.suite[1] IN
    CASE k = "none"  -> {m}
      [] k = "info"  -> {[m EXCEPT !.info = v] : v \in InfoVals \ {p.info}}
      [] k = "psk"   -> IF p.mode \in PskModes
                        THEN {[m EXCEPT !.psk = v] : v \in (PskVals \ {p.psk, <<>>})} ELSE {}
      [] k = "pskid" -> IF p.mode \in PskModes
                        THEN {[m EXCEPT !.pskId = v] : v \in (PskIdVals \ {p.pskId, <<>>})} ELSE {}
      \* another mode with the same PSK data (identity key supplied where the mode needs one)
      [] k = "mode"  -> {[m EXCEPT !.mode = mo,
                                   !.pkS = IF mo \in AuthModes THEN KP("S1", kem).pk ELSE <<>>]
                         : mo \in Modes \ {p.mode}}
      [] k = "kdf"   -> {[m EXCEPT !.suite = <<kem, kd, p.suite[3]>>] : kd \in Kdfs \ {p.suite[2]}}
      [] k = "aead"  -> {[m EXCEPT !.suite = <<kem, p.suite[2], a>>] : a \in Aeads \ {p.suite[3]}}
      [] k = "skr"   -> {[m EXCEPT !.skR = KP("R2", kem).sk]}
      [] k = "enc"   -> {[m EXCEPT !.enc = KP("E2", kem).pk]}
      [] k = "pks"   -> IF p.mode \in AuthModes THEN {[m EXCEPT !.pkS = KP("S2", kem).pk]} ELSE {}
      \* bytes moved between info and psk_id, concatenation unchanged
      [] k = "shift" -> IF p.mode \in PskModes
                        THEN {x \in {[m EXCEPT !.info = v, !.pskId = w] : v \in InfoVals, w \in PskIdVals \ {<<>>}} :
                                 x.info # m.info /\ Cat(x.info, x.pskId) = Cat(m.info, m.pskId)}
                        ELSE {}
      \* byte-level: every single bit of info / psk / psk_id, an appended or prepended zero byte
      [] k = "infobits"  -> {[m EXCEPT !.info = Flip(p.info, b)] : b \in Bits(p.info)}
      [] k = "pskbits"   -> IF p.mode \in PskModes THEN {[m EXCEPT !.psk = Flip(p.psk, b)] : b \in Bits(p.psk)} ELSE {}
      [] k = "pskidbits" -> IF p.mode \in PskModes THEN {[m EXCEPT !.pskId = Flip(p.pskId, b)] : b \in Bits(p.pskId)} ELSE {}
      \* the last and the second-to-last byte of the swept field (Shape "sweep": at EVERY length): a value whose tail is cut
      \* at some internal buffer size still binds nothing there
      [] k = "lastbyte" ->
            LET flips(v) == IF v \in {OneInfo, Leaf("pskd", 160), Leaf("pskidd", 160)} \/ BLen(v) = 0 THEN {}
                            ELSE {Flip(v, 8 * (BLen(v) - 1))} \cup (IF BLen(v) >= 2 THEN {Flip(v, 8 * (BLen(v) - 2))} ELSE {})
            IN {[m EXCEPT !.info = x] : x \in flips(p.info)}
               \cup (IF p.mode \in PskModes
                     THEN {[m EXCEPT !.psk = x] : x \in flips(p.psk)} \cup {[m EXCEPT !.pskId = x] : x \in flips(p.pskId)}
                     ELSE {})
      [] k = "ext"   -> {[m EXCEPT !.info = Cat(p.info, Lit(<<0>>))], [m EXCEPT !.info = Cat(Lit(<<0>>), p.info)]}
                        \cup (IF p.mode \in PskModes /\ p.psk # <<>>
                             THEN {[m EXCEPT !.psk = Cat(p.psk, Lit(<<0>>))], [m EXCEPT !.pskId = Cat(p.pskId, Lit(<<0>>))],
                                   [m EXCEPT !.psk = Cat(Lit(<<0>>), p.psk)], [m EXCEPT !.pskId = Cat(Lit(<<0>>), p.pskId)]}
                             ELSE {})
      \* X25519: small-order encapsulated key / sender identity key handed to the receiver (C10)
      [] k = "encsmall" -> IF kem = KEM_X25519 THEN {[m EXCEPT !.enc = Lit(e)] : e \in SmallOrderEncodings} ELSE {}
      \* other encodings / lengths of the encapsulated key: compressed forms (NIST), one byte cut off or added
      [] k = "encform" -> {[m EXCEPT !.enc = v] :
                              v \in {Take(m.enc, Nenc(kem) - 1), Cat(m.enc, Lit(<<0>>)), Drop(m.enc, 1)}
                                    \cup (IF kem \in NistKems
                                         THEN {Cat(Lit(<<t>>), Take(Drop(m.enc, 1), Nsk(kem))) : t \in {2, 3}} ELSE {})}
      [] k = "encsmall1" -> IF kem = KEM_X25519 THEN {[m EXCEPT !.enc = Lit(SmallOrderBase[6])]} ELSE {}
      [] k = "pkssmall" -> IF kem = KEM_X25519 /\ p.mode \in AuthModes
                           THEN {[m EXCEPT !.pkS = Lit(e)] : e \in SmallOrderEncodings} ELSE {}
      \* ... and 32-byte strings that are NOT of small order must be accepted (incl. non-canonical u >= p)
      [] k = "encother" -> IF kem = KEM_X25519 THEN {[m EXCEPT !.enc = Lit(e)] : e \in OtherEncodings} ELSE {}

\* senders that try to impersonate: other identity pair, public half only, non-authenticated mode
Impostors(p) ==
    LET q == [p EXCEPT !.rng = Rng("E3", p.suite[1])] IN        \* its own ephemeral randomness
    (IF p.mode \in AuthModes
     THEN {[q EXCEPT !.skS = KP("S2", p.suite[1]).sk, !.pkS = KP("S2", p.suite[1]).pk],
           [q EXCEPT !.skS = KP("S2", p.suite[1]).sk],           \* knows only the public half pkS
           [q EXCEPT !.mode = p.mode - 2, !.skS = <<>>, !.pkS = <<>>]}   \* non-authenticated mode
     ELSE {})
    \cup (IF p.mode \in PskModes /\ p.psk # <<>>                 \* does not know the PSK
         THEN {[q EXCEPT !.psk = v] : v \in PskVals \ {p.psk, <<>>}} ELSE {})

\* a second sender with the same parameters and the same randomness (determinism; alloc vs detached)
MC_SetupSMenu(cx) ==
    IF ShotsOnly THEN {}
    ELSE IF "s" \notin DOMAIN cx
    THEN {[c |-> "s", p |-> p] : p \in SenderParams}
         \cup {[c |-> "s", p |-> [p EXCEPT !.pkR = Lit(e)]] :
                  p \in {q \in SenderParams : q.suite[1] = KEM_X25519}, e \in BadKeys}
    ELSE IF Twin /\ "t" \notin DOMAIN cx /\ "r" \notin DOMAIN cx
         THEN {[c |-> "t", p |-> cx["s"].origin]}
    ELSE IF Impost /\ "i" \notin DOMAIN cx /\ "r" \notin DOMAIN cx
         THEN {[c |-> "i", p |-> p] : p \in Impostors(cx["s"].origin)}
         ELSE {}

\* the receiver the honest sender "s" would match, handed the impostor's encapsulated key instead
VictimOf(sp, ip) == [Matching(sp) EXCEPT !.enc = GenKeyPair(sp.suite[1], ip.rng).pk]

MC_SetupRMenu(cx) ==
    IF "s" \notin DOMAIN cx \/ "r" \in DOMAIN cx THEN {}
    ELSE {[c |-> "r", p |-> v] : v \in UNION {Variant(cx["s"].origin, k) : k \in Perturb}}
         \cup (IF "i" \in DOMAIN cx THEN {[c |-> "r", p |-> VictimOf(cx["s"].origin, cx["i"].origin)]} ELSE {})

PtOfN(n)  == Leaf("pt" \o ToString(n), IF Vals = "long" THEN <<70000, 0, 65536>>[(n % 3) + 1] ELSE <<29, 0, 1, 16, 17>>[(n % 5) + 1])
AadOfN(n) == Leaf("aad" \o ToString(n), IF Vals = "long" THEN <<0, 70000, 65535>>[(n % 3) + 1] ELSE <<7, 0, 16, 1, 20>>[(n % 5) + 1])
MC_PtMenu(n)  == {PtOfN(n)}
MC_AadMenu(n) == {AadOfN(n)}

MC_DeliveryMenu(snt) ==
    UNION {{[k |-> "msg", s |-> c, i |-> i, j |-> 0, n |-> 0] : i \in 1..Len(snt[c])} : c \in DOMAIN snt}

MC_ExportMenu == IF Vals = "long"
                 THEN {<<Leaf("ectx70000", 70000), 32>>, <<Leaf("ectx65536", 65536), 8160>>, <<<<>>, 70000>>, <<<<>>, 65536>>}
                 ELSE {<<<<>>, 32>>, <<Leaf("ectx", 11), 32>>, <<Lit(<<0>>), 16>>, <<Leaf("ectx65536", 65536), 32>>}

\* counter jumps for contexts from real setups (C02: the nonce layout beyond the first few messages)
MC_SeqMenu == {[seq |-> v, ovf |-> FALSE] : v \in {SmallSeq(65536), SmallSeq(16777215), <<0, 0, 0, 1, 0, 0, 0, 0>>,
                                                  <<1, 2, 3, 4, 5, 6, 7, 8>>, <<255, 255, 255, 255, 255, 255, 255, 254>>}}
NoMenu(x) == {}
NoMenu2(x, y) == {}

\* single-shot calls (section 6): the same parameters as the streaming sender, one message
ShotMsgs == {<<PtOfN(0), AadOfN(0)>>, <<PtOfN(1), AadOfN(1)>>}
MC_ShotSMenu(cx, sh) ==
    IF ShotsOnly /\ sh # <<>> THEN {} ELSE       \* one single-shot message per behaviour is enough there
    (IF "s" \in DOMAIN cx
     THEN {[p |-> cx["s"].origin, pt |-> m[1], aad |-> m[2]] : m \in ShotMsgs} ELSE {})
    \cup (IF ShotsOnly THEN {[p |-> p, pt |-> PtOfN(0), aad |-> AadOfN(0)] : p \in SenderParams} ELSE {})
    \cup (IF DOMAIN cx = {}
         THEN {[p |-> [p EXCEPT !.pkR = Lit(e)], pt |-> PtOfN(0), aad |-> AadOfN(0)] :
                  p \in {q \in SenderParams : q.suite[1] = KEM_X25519}, e \in BadKeys}
         ELSE {})
ShotDeliveries(i) ==
    IF ShotDl = "msg" THEN {[k |-> "msg", s |-> "shot", i |-> i, j |-> 0, n |-> 0]} ELSE
    {[k |-> "msg", s |-> "shot", i |-> i, j |-> 0, n |-> 0],
     [k |-> "flipct", s |-> "shot", i |-> i, j |-> 0, n |-> 3],
     [k |-> "fliptag", s |-> "shot", i |-> i, j |-> 0, n |-> 127],
     [k |-> "flipaad", s |-> "shot", i |-> i, j |-> 0, n |-> 0],
     [k |-> "trunc", s |-> "shot", i |-> i, j |-> 0, n |-> 1],
     [k |-> "trunc", s |-> "shot", i |-> i, j |-> 0, n |-> 17],
     [k |-> "extend", s |-> "shot", i |-> i, j |-> 0, n |-> 1],
     [k |-> "emptyaad", s |-> "shot", i |-> i, j |-> 0, n |-> 0]}
\* opened with receiver parameters that match the single-shot sender's, or differ as Perturb says
MC_ShotRMenu(cx, sh) ==
    UNION {{[p |-> v, d |-> d] : v \in UNION {Variant(sh[i].p, k) : k \in Perturb}, d \in ShotDeliveries(i)}
           : i \in 1..Len(sh)}

(************************** C07 / C08 **************************************)
SkEOf(p) == GenKeyPair(p.suite[1], p.rng).sk

ParamsAgree(sp, rp) ==
    /\ sp.suite = rp.suite /\ sp.mode = rp.mode /\ sp.info = rp.info
    /\ EffPsk(sp.mode, sp.psk) = EffPsk(rp.mode, rp.psk)
    /\ EffPskId(sp.mode, sp.pskId) = EffPskId(rp.mode, rp.pskId)
    /\ sp.pkR = PK(sp.suite[1], rp.skR)
    /\ rp.enc = PK(sp.suite[1], SkEOf(sp))
    /\ sp.mode \in AuthModes => (rp.pkS = sp.pkS /\ sp.pkS = PK(sp.suite[1], sp.skS))

\* C07 (=>) and C01 (<=): a sender and a receiver share key material iff their parameters agree;
\* when they disagree they share NONE of key, base nonce, exporter secret
Binding ==
    \A s \in Senders, r \in Receivers :
        LET agree == ParamsAgree(ctx[s].origin, ctx[r].origin)
        IN  /\ agree => KeyMat(s) = KeyMat(r)
            /\ ~agree => ~SharesAny(s, r)

\* C08: a receiver in an authenticated mode shares key material only with the holder of skS
AuthSound ==
    \A s \in Senders, r \in Receivers :
        (ctx[r].origin.mode \in AuthModes /\ SharesAny(s, r)) =>
            /\ ctx[s].origin.mode = ctx[r].origin.mode
            /\ ctx[r].origin.pkS = PK(ctx[r].suite[1], ctx[s].origin.skS)
PskSound ==
    \A s \in Senders, r \in Receivers :
        (ctx[r].origin.mode \in PskModes /\ SharesAny(s, r)) =>
            /\ ctx[s].origin.mode \in PskModes
            /\ ctx[s].origin.psk = ctx[r].origin.psk /\ ctx[s].origin.pskId = ctx[r].origin.pskId

(************************** ordering / emission *****************************)
Rank(op) == CASE op = "init" -> 0 [] op = "setup_s" -> 1 [] op = "setup_r" -> 2 [] op = "set_seq" -> 3 [] op = "seal" -> 4
              [] op = "open" -> 5 [] op = "export" -> 6 [] op = "single_shot_seal" -> 7 [] OTHER -> 8
InOrder == ~Ordered \/ Rank(last.op) <= Rank(last'.op)

\* C10 / C13: what a failed setup looks like
SetupFailures ==
    \* (E_LEN / InvalidPskBundle come from the deserialisers and PskBundle::new that precede the call)
    (last.op \in {"setup_s", "single_shot_seal"} /\ last.kind = "err") => last.err \in {E_ENC, "InvalidPskBundle", E_LEN}
SetupFailuresR ==
    (last.op = "setup_r" /\ last.kind = "err") => last.err \in {E_DEC, "InvalidPskBundle", E_LEN}
NoCtxOnFailure ==
    (last.op \in {"setup_s", "setup_r"} /\ last.kind = "err") => last.c \notin DOMAIN ctx
BadTagLen == last.op = "single_shot_open" /\ last.form = "detached" /\ BLen(last.bytes.tag) # Nt(last.plain.suite[3])
SmallOrderRefused ==
    /\ (last.op \in {"setup_s", "single_shot_seal"} /\ IsSmallOrder(last.plain.suite[1], last.bytes.pk_r))
          => (last.kind = "err" /\ last.err = E_ENC)
    /\ (last.op \in {"setup_r", "single_shot_open"} /\ IsSmallOrder(last.plain.suite[1], last.bytes.enc) /\ ~BadTagLen)
          => (last.kind = "err" /\ last.err = E_DEC)
    /\ (last.op \in {"setup_r", "single_shot_open"} /\ last.plain.mode \in AuthModes /\ ~BadTagLen
          /\ IsSmallOrder(last.plain.suite[1], last.bytes.pk_s)) => (last.kind = "err" /\ last.err = E_DEC)
\* ... and nothing else is refused: a setup fails only for a small-order key (or a malformed PSK bundle)
OnlySmallOrderRefused ==
    (last.op \in {"setup_s", "setup_r"} /\ last.kind = "err" /\ last.err \in {E_ENC, E_DEC}) =>
        \/ (last.op = "setup_s" /\ IsSmallOrder(last.plain.suite[1], last.bytes.pk_r))
        \/ (last.op = "setup_r" /\ IsSmallOrder(last.plain.suite[1], last.bytes.enc))
        \/ (last.op = "setup_r" /\ last.plain.mode \in AuthModes /\ IsSmallOrder(last.plain.suite[1], last.bytes.pk_s))
CheckSetup ==
    /\ Assert(SetupFailures', "SetupFailures") /\ Assert(SetupFailuresR', "SetupFailuresR")
    /\ Assert(NoCtxOnFailure', "NoCtxOnFailure") /\ Assert(SmallOrderRefused', "SmallOrderRefused")
    /\ Assert(OnlySmallOrderRefused', "OnlySmallOrderRefused")

\* C15: for every PSK-mode sender, the export the RFC wiring gives and the one each mis-wiring would give
WiringCtx == Leaf("wiringctx", 9)
WiringOf(p) ==
    LET e == Encap(p.suite[1], p.pkR, IF p.mode \in AuthModes THEN Id(p.skS, p.pkS) ELSE NoId, p.rng)
        r == SetupSStep(p)
    IN [setup |-> SetupSRec("s", p, r),
        export |-> [op |-> "export", c |-> "s", form |-> "", plain |-> [len |-> 32], bytes |-> [exporter_ctx |-> WiringCtx],
                    kind |-> "ok", err |-> "", out |-> [out |-> ExportValue(p.suite, r.km.exp, WiringCtx, 32)],
                    outn |-> EmptyF, pre |-> NoState, post |-> NoState, untouched |-> FALSE],
        hyps |-> [h \in WiringHyps |->
                    ExportValue(p.suite, KeyScheduleH(h, p.suite, p.mode, e.ss, p.info, p.psk, p.pskId).exp, WiringCtx, 32)]]
ASSUME EmitWiring => PrintT(ToJson([wiring |-> {WiringOf(p) : p \in {q \in SenderParams : q.mode \in PskModes /\ q.psk # <<>>}},
                                    prologue |-> {[kem |-> k, pro |-> Prologue(k)] : k \in KemSet}]))

ASSUME Emit => PrintT(ToJson([prologue |-> {[kem |-> k, pro |-> Prologue(k)] : k \in KemSet}]))
EmitTr == Emit => PrintT(ToJson(TransitionRecord))

PrintHist == (RecordHist /\ Len(hist) = HistLen) =>
                PrintT(ToJson([pro |-> Prologue(ctx["s"].suite[1]), hist |-> hist]))
=============================================================================
