INIT Init
NEXT Next
CONSTANTS
  Part = "nist"
  KemSet = {16, 17, 18}
  NPer = 2
  AllTags = TRUE
  Emit = FALSE
VIEW ViewNone
ACTION_CONSTRAINT CheckCalls EmitTr
CHECK_DEADLOCK FALSE
