INIT ParInit
NEXT ParNext
CONSTANTS
  KemC = 32
  KdfC = 1
  AeadC = 1
  ModeC = 0
  Threads = {1, 2}
  HistLen = 8
  SetupSMenu <- MC_SetupSMenu
  SetupRMenu <- MC_SetupRMenu
  RawMenu = {}
  SeqMenu = {}
  PtMenu <- MC_PtMenu
  AadMenu <- MC_AadMenu
  FormMenu = {"alloc"}
  DeliveryMenu <- MC_DeliveryMenu
  ExportMenu <- MC_ExportMenu
  ShotSMenu <- NoMenu2
  ShotRMenu <- NoMenu2
  MaxSeals = 2
  MaxOpens = 2
  MaxExports = 2
  MaxSetSeq = 0
  MaxShots = 0
  OvfFirstInOpen = TRUE
  HugeSeals = FALSE
  RecordHist = TRUE
VIEW ParView
ACTION_CONSTRAINT CheckLast
INVARIANTS Determinism AcceptsOnlySealed PrintHist
PROPERTIES Frame
CHECK_DEADLOCK FALSE
