------------------------------- MODULE MC_Seq -------------------------------
(***************************************************************************)
(* Bounded instance for the sequencing properties (C04 C05 C06 C11 C14 and *)
(* the message part of C01): a sender "s" and a receiver "r" that share    *)
(* key material, a second sender "x" with other key material, all built    *)
(* with the raw-context hook; counters start at a carry boundary chosen in *)
(* Init; the environment seals, the adversary delivers, anyone exports.    *)
(***************************************************************************)
EXTENDS HpkeProps, Json

CONSTANTS AeadC,        \* AEAD code point of this run (1, 2, 3 or 65535)
          KdfC,         \* KDF code point of this run
          Starts,       \* "boundary" | "zero": which start positions Init offers
          Menu,         \* "none" | "small" | "full": what the adversary may deliver
          BnKind,       \* base nonce of s / r: "leaf" (opaque) or a literal pattern "zeros" | "ones" | "alt"
          ExpMenu,      \* "few" | "lens" | "sweep": which (exporter context, length) pairs are offered
          SweepFrom, SweepTo,
          LenVar,       \* rotates the table of plaintext / aad lengths
          HistLen,      \* print behaviours when hist has this many steps (generation runs)
          Emit          \* TRUE: print every distinct (state, last call) as JSON

TheSuite == <<KEM_X25519, KdfC, AeadC>>
NhC == Nh(KdfHash(KdfC))
\* deviation D3: the export-only "AEAD" of the library has a 128-byte nonce that nothing ever observes
NnRaw == IF AeadC = AEAD_EXPORT THEN 128 ELSE Nn(AeadC)
\* literal base nonces make ComputeNonce fully concrete inside TLA+ (XOR is then computed here, and
\* all-ones / alternating bits tell XOR from OR and ADD)
BaseNonce(n) == CASE BnKind = "leaf"  -> Leaf("bn" \o n, NnRaw)
                  [] BnKind = "zeros" -> Lit(Zeros(Nn(AeadC)))
                  [] BnKind = "ones"  -> Lit(Fill(255, Nn(AeadC)))
                  [] BnKind = "alt"   -> Lit([i \in 1..Nn(AeadC) |-> IF i % 2 = 0 THEN 85 ELSE 170])
Km(n) == [key |-> Leaf("key" \o n, Nk(AeadC)), bn |-> BaseNonce(n), exp |-> Leaf("exp" \o n, NhC)]
RawS == [c |-> "s", role |-> "S", suite |-> TheSuite] @@ Km("1")
RawR == [c |-> "r", role |-> "R", suite |-> TheSuite] @@ Km("1")
RawX == [c |-> "x", role |-> "S", suite |-> TheSuite] @@ Km("2")

(* start positions: 0, 1, every byte-carry boundary 2^8k-2, 2^8k-1, 2^8k, and 2^64-2, 2^64-1 *)
AllOnes(k) == [i \in 1..8 |-> IF i > 8 - k THEN 255 ELSE 0]            \* 2^(8k) - 1
Boundary ==
    {Seq0, SmallSeq(1), SmallSeq(2)}
    \cup {AllOnes(k) : k \in 1..8}
    \cup {[AllOnes(k) EXCEPT ![8] = 254] : k \in 1..8}
    \cup {ByteInc(AllOnes(k)) : k \in 1..7}
    \cup { <<0, 255, 255, 255, 255, 255, 255, 255>>, <<255, 0, 0, 0, 0, 0, 0, 0>>,
           <<170, 85, 170, 85, 170, 85, 170, 255>>, <<255, 255, 255, 254, 255, 255, 255, 255>> }
Edge == {Seq0, AllOnes(4), [AllOnes(8) EXCEPT ![8] = 254], AllOnes(8)}
StartSet == CASE Starts = "boundary" -> Boundary [] Starts = "edge" -> Edge [] OTHER -> {Seq0}
\* "cross": the sender stays at 0 and the receiver stands at 2^j, for every bit j of the counter (a message
\* sealed at one position must not open at a position that differs in any single bit)
PowerOfTwo(j) == [i \in 1..8 |-> IF i = 8 - (j \div 8) THEN Pow2(j % 8) ELSE 0]

\* the receiver starts where the sender starts, one before, or one after (when they exist)
RecvStarts(b) == IF Starts = "cross" THEN {PowerOfTwo(j) : j \in 0..63} ELSE
                 {b} \cup (IF b # Seq0 /\ Starts # "zero" /\ Menu # "none" THEN {[b EXCEPT ![8] = IF @ = 0 THEN 0 ELSE @ - 1]} ELSE {})

MC_Init ==
    \E b \in StartSet : \E br \in RecvStarts(b) : \E o \in (IF b = SeqMax THEN {FALSE, TRUE} ELSE {FALSE}) :
        /\ ctx = ("s" :> RawCtxAt(RawS, [seq |-> b, ovf |-> o]))
                 @@ ("r" :> RawCtxAt(RawR, [seq |-> br, ovf |-> (o /\ br = SeqMax)]))
                 @@ ("x" :> RawCtxOf(RawX))
        /\ sent = ("s" :> <<>>) @@ ("x" :> <<>>)
        /\ rcvd = ("r" :> <<>>)
        /\ shots = <<>>
        /\ used = [k \in {"seal", "open", "export", "setseq", "shot"} |-> 0]
        /\ last = [op |-> "init"]
        /\ hist = IF RecordHist
                  THEN << RawCtxRec(RawS), RawCtxRec(RawR), RawCtxRec(RawX),
                          SetSeqRec("s", [seq |-> Seq0, ovf |-> FALSE], [seq |-> b, ovf |-> o]),
                          SetSeqRec("r", [seq |-> Seq0, ovf |-> FALSE], [seq |-> br, ovf |-> (o /\ br = SeqMax)]) >>
                  ELSE <<>>

\* the n-th message of a sender has its own plaintext and aad (lengths straddle block sizes)
PtLens  == <<0, 1, 17, 32, 15, 64, 16, 33, 255, 256, 257, 4097, 5, 16>>
AadLens == <<0, 5, 0, 16, 1, 17, 17, 1, 256, 0, 255, 33, 70000, 65537>>
MC_PtMenu(n)  == {Leaf("pt" \o ToString(n), PtLens[((n + LenVar) % 14) + 1])}
MC_AadMenu(n) == {Leaf("aad" \o ToString(n), AadLens[((n + LenVar) % 14) + 1])}

D(k, s, i, j, n) == [k |-> k, s |-> s, i |-> i, j |-> j, n |-> n]
SmallMenu(MsgIdx) ==
    {D("msg", s, i, 0, 0) : s \in {"s", "x"}, i \in MsgIdx}
    \cup {D("flipct", "s", i, 0, 0) : i \in MsgIdx} \cup {D("fliptag", "s", i, 0, 7) : i \in MsgIdx}
    \cup {D("trunc", "s", i, 0, 1) : i \in MsgIdx} \cup {D("extend", "s", i, 0, 1) : i \in MsgIdx}
    \cup {D("swapaad", "s", i, j, 0) : i \in MsgIdx, j \in MsgIdx}
    \cup {D("garbage", "s", 3, 16, 17), D("garbage", "s", 0, 0, 15), D("garbage", "s", 0, 0, 0)}
    \cup {D("extendtag", "s", i, 0, 16) : i \in MsgIdx}
FullMenu(MsgIdx) ==
    {D("msg", s, i, 0, 0) : s \in {"s", "x"}, i \in MsgIdx}
    \cup {D(k, "s", i, 0, n) : k \in {"flipct", "fliptag", "flipaad"}, i \in MsgIdx, n \in {0, 7}}
    \cup {D(k, "s", i, 0, n) : k \in {"trunc", "truncfront", "extend", "prepend", "extendbody",
                                      "truncbody", "extendaad"}, i \in MsgIdx, n \in {1, 16}}
    \cup {D(k, "s", i, j, 0) : k \in {"swaptag", "swapaad", "swapct"}, i \in MsgIdx, j \in MsgIdx}
    \cup {D("emptyaad", "s", i, 0, 0) : i \in MsgIdx}
    \cup {D("garbage", "s", a, 16, n) : a \in {0, 3}, n \in {0, 1, 15, 16, 17}}
    \cup {D("garbage", "s", 0, 0, n) : n \in {0, 1, 15}}        \* shorter than a tag (alloc form only)

\* C06: EVERY single-bit position of ciphertext, tag and aad, every truncation length, extensions at
\* either end, every substitution between two messages (ranges follow the actual message sizes)
\* every bit of a short string; of a long one every bit of the bytes around 255/256, 65535/65536 and of the last byte
BitBytes(n) == {0, 255, 256, 65534, 65535, 65536, n - 1} \cap 0..(n - 1)
BitsAt(n) == IF n <= 40 THEN 0..(8 * n - 1) ELSE {8 * b + k : b \in BitBytes(n), k \in 0..7}
TruncAad(n) == IF n <= 40 THEN 1..n ELSE {1, n - 65536, n - 65535, n - 256, n - 255, n} \cap 1..n
IntegrityMenu(ms) ==
    LET Idx == 1..Len(ms) IN
    {D("msg", "s", i, 0, 0) : i \in Idx}
    \cup UNION {{D("flipct", "s", i, 0, n) : n \in 0..(8 * BLen(ms[i].ct) - 1)} : i \in Idx}
    \cup UNION {{D("fliptag", "s", i, 0, n) : n \in 0..(8 * BLen(ms[i].tag) - 1)} : i \in Idx}
    \cup UNION {{D("flipaad", "s", i, 0, n) : n \in BitsAt(BLen(ms[i].aad))} : i \in Idx}
    \cup UNION {{D(k, "s", i, 0, n) : k \in {"trunc", "truncfront"}, n \in 1..(BLen(ms[i].ct) + BLen(ms[i].tag))} : i \in Idx}
    \cup UNION {{D("truncbody", "s", i, 0, n) : n \in 1..BLen(ms[i].ct)} : i \in Idx}
    \cup {D(k, "s", i, 0, n) : k \in {"extend", "prepend", "extendbody", "extendaad"}, i \in Idx, n \in {1, 16}}
    \cup {D(k, "s", i, j, 0) : k \in {"swaptag", "swapaad", "swapct"}, i \in Idx, j \in Idx}
    \cup {D("emptyaad", "s", i, 0, 0) : i \in Idx}
    \cup {D("extendtag", "s", i, 0, n) : i \in Idx, n \in {1, 16, 32}} \cup {D("tagtwice", "s", i, 0, 0) : i \in Idx}
    \cup UNION {{D("truncaad", "s", i, 0, n) : n \in TruncAad(BLen(ms[i].aad))} : i \in Idx}
MC_DeliveryMenu(snt) ==
    CASE Menu = "none" -> {} [] Menu = "small" -> SmallMenu(1..MaxSeals) [] Menu = "full" -> FullMenu(1..MaxSeals)
      [] Menu = "integrity" -> IntegrityMenu(snt["s"])
      \* C13: arbitrary input of every length class at the opening entry points
      [] Menu = "lengths" -> {D("garbage", "s", a, t, n) : a \in {0, 1, 70000}, t \in {0, 16},
                                                            n \in {0, 1, 15, 16, 17, 31, 32, 33, 63, 64, 65, 65535, 65536, 70000}}
                             \cup {D("msg", "s", i, 0, 0) : i \in 1..MaxSeals}
      [] Menu = "inorder" -> {D("msg", "s", i, 0, 0) : i \in 1..MaxSeals}

\* export lengths around every interesting bound: 0, 1, Nh, 255*Nh (the HKDF limit), 2^16
ExportLens == {0, 1, 16, NhC - 1, NhC, NhC + 1, 255 * NhC - 1, 255 * NhC, 255 * NhC + 1, 65535, 65536, 70000}
MC_ExportMenu ==
    CASE ExpMenu = "few"  -> {<<<<>>, 32>>, <<Leaf("ectx", 7), 32>>, <<Leaf("ectx", 7), 0>>, <<<<>>, 255 * NhC>>, <<<<>>, 255 * NhC + 1>>}
      [] ExpMenu = "lens" -> {<<Leaf("ectx", 7), L>> : L \in ExportLens}
                             \cup {<<<<>>, 32>>, <<Lit(<<0>>), 32>>, <<Leaf("ectxlong", 300), 32>>, <<Leaf("ectx1", 1), 32>>}
      [] ExpMenu = "sweep" -> {<<Leaf("ectx", 7), L>> : L \in SweepFrom..SweepTo}
      \* every exporter-context length in a range
      \* (one output block and several: the two shapes of the HKDF-Expand loop)
      [] ExpMenu = "ctxsweep" -> {<<Leaf("ectxL" \o ToString(n), n), L>> : n \in SweepFrom..SweepTo, L \in {32, 2 * NhC + 1}}
      \* ... and around every power of two up to 2^16 (a scratch buffer of some "round" size)
      [] ExpMenu = "ctxpow2" -> {<<Leaf("ectxL" \o ToString(n), n), L>> : L \in {32, 2 * NhC + 1},
                                   \* (and 22 bytes below: the hashed string has 2 + 7 + 10 + 3 bytes of header)
                                   n \in UNION {{p - 2, p - 1, p, p + 1, p + 2, p - 23, p - 22, p - 21} :
                                                p \in {1024, 2048, 4096, 8192, 16384, 32768, 65536}}}

NoSetups(x) == {}
NoSetups2(x, y) == {}
\* one line per generated transition: everything a one-transition implementation test needs
EmitTr == Emit => PrintT(ToJson(TransitionRecord))

PrintHist == (RecordHist /\ Len(hist) = HistLen) => PrintT(ToJson(hist))
=============================================================================
