------------------------------ MODULE HpkeKdf ------------------------------
(***************************************************************************)
(* Primitive terms (free algebra) and RFC 9180 section 4: labelled KDF.    *)
(***************************************************************************)
EXTENDS HpkeBytes, HpkeSuites

L_HPKE_v1       == <<72, 80, 75, 69, 45, 118, 49>>                                 \* "HPKE-v1"
L_HPKE          == <<72, 80, 75, 69>>                                              \* "HPKE"
L_KEM           == <<75, 69, 77>>                                                  \* "KEM"
L_eae_prk       == <<101, 97, 101, 95, 112, 114, 107>>                             \* "eae_prk"
L_shared_secret == <<115, 104, 97, 114, 101, 100, 95, 115, 101, 99, 114, 101, 116>> \* "shared_secret"
L_dkp_prk       == <<100, 107, 112, 95, 112, 114, 107>>                            \* "dkp_prk"
L_sk            == <<115, 107>>                                                    \* "sk"
L_candidate     == <<99, 97, 110, 100, 105, 100, 97, 116, 101>>                    \* "candidate"
L_psk_id_hash   == <<112, 115, 107, 95, 105, 100, 95, 104, 97, 115, 104>>          \* "psk_id_hash"
L_info_hash     == <<105, 110, 102, 111, 95, 104, 97, 115, 104>>                   \* "info_hash"
L_secret        == <<115, 101, 99, 114, 101, 116>>                                 \* "secret"
L_key           == <<107, 101, 121>>                                               \* "key"
L_base_nonce    == <<98, 97, 115, 101, 95, 110, 111, 110, 99, 101>>                \* "base_nonce"
L_exp           == <<101, 120, 112>>                                               \* "exp"
L_sec           == <<115, 101, 99>>                                                \* "sec"

\* HKDF (RFC 5869) as opaque terms
Extract(h, salt, ikm)   == T(<<"extract", h, salt, ikm>>, Nh(h))
Expand(h, prk, info, L) == T(<<"expand", h, prk, info, L>>, L)
ExpandOk(h, L)          == L <= 255 * Nh(h)

\* suite_id = "KEM" || I2OSP(kem_id, 2)                         (section 4.1)
SuiteIdKem(kem) == L_KEM \o I2OSP2(kem)
\* suite_id = "HPKE" || I2OSP(kem_id,2) || I2OSP(kdf_id,2) || I2OSP(aead_id,2)   (section 5.1)
SuiteIdHpke(suite) == L_HPKE \o I2OSP2(suite[1]) \o I2OSP2(suite[2]) \o I2OSP2(suite[3])

\* labeled_ikm = "HPKE-v1" || suite_id || label || ikm
LabeledExtract(h, sid, salt, label, ikm) ==
    Extract(h, salt, Cat(Lit(L_HPKE_v1 \o sid \o label), ikm))
\* labeled_info = I2OSP(L, 2) || "HPKE-v1" || suite_id || label || info
LabeledExpand(h, sid, prk, label, info, L) ==
    Expand(h, prk, Cat(Lit(I2OSP2(L) \o L_HPKE_v1 \o sid \o label), info), L)

\* section 4.1
ExtractAndExpand(kem, dh, kemContext) ==
    LET h   == KemHash(kem)
        sid == SuiteIdKem(kem)
        eae == LabeledExtract(h, sid, <<>>, L_eae_prk, dh)
    IN  LabeledExpand(h, sid, eae, L_shared_secret, kemContext, Nsecret(kem))
=============================================================================
