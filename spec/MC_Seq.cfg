INIT MC_Init
NEXT Next
CONSTANTS
  AeadC = 1
  Starts = "boundary"
  Menu = "full"
  BnKind = "leaf"
  Emit = FALSE
  SetupSMenu <- NoSetups
  SetupRMenu <- NoSetups
  RawMenu = {}
  SeqMenu = {}
  PtMenu <- MC_PtMenu
  AadMenu <- MC_AadMenu
  FormMenu = {"alloc", "detached"}
  DeliveryMenu <- MC_DeliveryMenu
  ExportMenu <- MC_ExportMenu
  ShotSMenu <- NoSetups
  ShotRMenu <- NoSetups
  MaxSeals = 3
  MaxOpens = 3
  MaxExports = 1
  MaxSetSeq = 0
  MaxShots = 0
  OvfFirstInOpen = FALSE
  RecordHist = FALSE
INVARIANTS
  NonceIsXor NoncesDistinct AdvanceByOne DeadAfterLimit LiveBeforeLimit
  AcceptsOnlySealed TamperedRejected VerbatimDecision FailureIsStutter RcvdInOrder CtLen
  ExportIsPure
PROPERTIES
  Latch Monotone
CHECK_DEADLOCK FALSE
