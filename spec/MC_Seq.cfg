INIT MC_Init
NEXT Next
CONSTANTS
  AeadC = 1
  KdfC = 1
  ExpMenu = "few"
  SweepFrom = 0
  SweepTo = 0
  Starts = "boundary"
  Menu = "full"
  BnKind = "leaf"
  LenVar = 0
  Emit = FALSE
  SetupSMenu <- NoSetups
  SetupRMenu <- NoSetups
  RawMenu = {}
  SeqMenu = {}
  PtMenu <- MC_PtMenu
  AadMenu <- MC_AadMenu
  FormMenu = {"alloc", "detached"}
  DeliveryMenu <- MC_DeliveryMenu
  ExportMenu <- MC_ExportMenu
  ShotSMenu <- NoSetups2
  ShotRMenu <- NoSetups2
  MaxSeals = 3
  MaxOpens = 3
  MaxExports = 1
  MaxSetSeq = 0
  MaxShots = 0
  OvfFirstInOpen = TRUE
  HugeSeals = FALSE
  RecordHist = FALSE
  HistLen = 0
VIEW CoreView
ACTION_CONSTRAINT CheckLast EmitTr
CHECK_DEADLOCK FALSE
INVARIANTS
  NonceIsXor NoncesDistinct ConsecutiveSeqs AcceptsOnlySealed RcvdInOrder CtLen
PROPERTIES
  Latch Monotone
