----------------------------- MODULE HpkeProps -----------------------------
(***************************************************************************)
(* The listed properties, as state invariants over Hpke.tla (the record of *)
(* the last call makes per-call statements state predicates) and action    *)
(* properties.                                                             *)
(***************************************************************************)
EXTENDS Hpke

IsCall(op) == last.op = op
HasCtxCall == last.op \in {"seal", "open", "export", "set_seq"}

AllMsgs == UNION {{sent[s][i] : i \in 1..Len(sent[s])} : s \in DOMAIN sent}
             \cup {shots[i] : i \in 1..Len(shots)}

(************************* C04: nonce sequencing ***************************)
\* the nonce of every sealed message is base_nonce XOR (0^(Nn-8) || be64(seq))
NonceIsXor ==
    \A s \in DOMAIN sent : \A i \in 1..Len(sent[s]) :
        sent[s][i].nonce = ComputeNonce(AeadOf(ctx[s]), ctx[s].bn, sent[s][i].seq)

\* no two messages sealed by one context share a nonce (between two hook jumps)
NoncesDistinct ==
    \A s \in DOMAIN sent : \A i, j \in 1..Len(sent[s]) :
        (i < j /\ sent[s][i].ep = sent[s][j].ep) => sent[s][i].nonce # sent[s][j].nonce

\* consecutive successful seals carry consecutive sequence numbers (between two hook jumps)
ConsecutiveSeqs ==
    \A s \in DOMAIN sent : \A i \in 2..Len(sent[s]) :
        sent[s][i].ep = sent[s][i - 1].ep => sent[s][i].seq = ByteInc(sent[s][i - 1].seq)

\* a successful seal/open moves the counter up by exactly one, or sets the latch at 2^64-1:
\* the counter never wraps
AdvanceByOne ==
    (last.op \in {"seal", "open"} /\ last.kind = "ok") =>
        \/ (last.pre.seq # SeqMax /\ last.post.seq = ByteInc(last.pre.seq)
            /\ ByteLt(last.pre.seq, last.post.seq) /\ ~last.post.ovf)
        \/ (last.pre.seq = SeqMax /\ last.post.seq = SeqMax /\ last.post.ovf)

\* once refused, refused forever; the refusal leaves counter and buffer alone
DeadAfterLimit ==
    (last.op \in {"seal", "open"} /\ last.pre.ovf) =>
        \/ (last.kind = "err" /\ last.err = E_MLR /\ last.post = last.pre /\ last.untouched)
        \* a detached tag of the wrong length is refused by its deserialiser before the context is consulted
        \/ (last.op = "open" /\ last.form = "detached" /\ last.kind = "err" /\ last.err = E_LEN
            /\ last.post = last.pre /\ last.untouched)
        \* deviation D5 (only when the model is told to mirror it)
        \/ (~OvfFirstInOpen /\ last.op = "open" /\ last.form = "alloc"
            /\ last.kind = "err" /\ last.err = E_OPEN /\ last.post = last.pre
            /\ BLen(last.bytes.ct) < 16)

\* sealing works as long as the latch is not set, in particular AT 2^64-1
LiveBeforeLimit ==
    (IsCall("seal") /\ ~last.pre.ovf /\ ctx[last.c].suite[3] # AEAD_EXPORT) => last.kind = "ok"

Latch == [][\A c \in DOMAIN ctx : (c \in DOMAIN ctx' /\ ctx[c].ovf /\ last'.op # "set_seq")
                                   => ctx'[c].ovf]_vars
Monotone == [][\A c \in DOMAIN ctx : (c \in DOMAIN ctx' /\ last'.op # "set_seq")
                                   => ByteLeq(ctx[c].seq, ctx'[c].seq)]_vars

(********************* C05 / C06: what a receiver accepts ******************)
\* every accepted plaintext was sealed, under the receiver's key, at exactly the position the
\* receiver was at, with exactly that aad
AcceptsOnlySealed ==
    \A r \in DOMAIN rcvd : \A k \in 1..Len(rcvd[r]) :
        \E m \in AllMsgs :
            /\ m.key = ctx[r].key
            /\ m.nonce = ComputeNonce(AeadOf(ctx[r]), ctx[r].bn, rcvd[r][k].seq)
            /\ m.pt = rcvd[r][k].pt /\ m.aad = rcvd[r][k].aad

\* ... and was delivered verbatim: no modified delivery is ever accepted (C06)
OpenCall == last.op \in {"open", "single_shot_open"}
LastAead == IF last.op \in {"open", "seal"} THEN ctx[last.c].suite[3] ELSE last.plain.suite[3]
\* (deliveries given as bytes - trace validation - carry no descriptor and are judged by AcceptsOnlySealed)
TamperedRejected ==
    (OpenCall /\ ~IsVerbatim(last.plain.d) /\ last.plain.d.k # "bytes" /\ LastAead # AEAD_EXPORT) =>
        /\ last.kind = "err"
        /\ last.err \in {E_OPEN, E_MLR, E_DEC, E_LEN}
        /\ (last.err = E_MLR => last.pre.ovf)

\* the in-sequence message IS accepted (completeness), anything else verbatim is not
VerbatimDecision ==
    (IsCall("open") /\ IsVerbatim(last.plain.d) /\ ~last.pre.ovf
       /\ ctx[last.c].suite[3] # AEAD_EXPORT) =>
        LET d == last.plain.d
            m == IF d.s = "shot" THEN shots[d.i] ELSE sent[d.s][d.i]
            inSeq == /\ m.key = ctx[last.c].key
                     /\ m.nonce = ComputeNonce(AeadOf(ctx[last.c]), ctx[last.c].bn, last.pre.seq)
        IN  IF inSeq THEN last.kind = "ok" /\ last.out.pt = m.pt
            ELSE last.kind = "err" /\ last.err = E_OPEN

FailureIsStutter ==
    (last.op \in {"seal", "open", "seal_huge"} /\ last.kind # "ok") => last.post = last.pre

\* positions of accepted messages strictly increase (between hook jumps)
RcvdInOrder ==
    \A r \in DOMAIN rcvd : \A i, j \in 1..Len(rcvd[r]) :
        (i < j /\ rcvd[r][i].ep = rcvd[r][j].ep) => ByteLt(rcvd[r][i].seq, rcvd[r][j].seq)

(****************************** C01: sizes *********************************)
CtLen ==
    \A m \in AllMsgs : BLen(m.ct) = BLen(m.pt) /\ BLen(m.tag) = 16

(******************************* C11 ***************************************)
ExportIsPure ==
    IsCall("export") =>
        /\ last.post = last.pre
        /\ IF last.plain.len <= 255 * Nh(KdfHash(ctx[last.c].suite[2]))
           THEN last.kind = "ok" /\ BLen(last.out.out) = last.plain.len
                /\ last.out.out = ExportValue(ctx[last.c].suite, ctx[last.c].exp,
                                              last.bytes.exporter_ctx, last.plain.len)
           ELSE last.kind = "err" /\ last.err = E_KDF

ExportOnlyPanics ==
    (last.op \in {"seal", "open"} /\ ctx[last.c].suite[3] = AEAD_EXPORT /\ ~last.pre.ovf
       /\ ~(last.op = "open" /\ last.form = "alloc" /\ FALSE))
        => (last.kind = "panic" \/ (last.op = "open" /\ last.form = "detached" /\ last.err = E_LEN))

(***************************************************************************)
(* Incremental forms for trace validation: along ONE behaviour it is       *)
(* enough to examine, in every state, what the last call added (earlier    *)
(* entries were examined in earlier states); keeps long traces linear.     *)
(***************************************************************************)
LastSealed == sent[last.c][Len(sent[last.c])]
LastRcvd   == rcvd[last.c][Len(rcvd[last.c])]
SealedUnder(m, r, e) ==
    /\ m.key = ctx[r].key
    /\ m.nonce = ComputeNonce(AeadOf(ctx[r]), ctx[r].bn, e.seq)
    /\ m.pt = e.pt /\ m.aad = e.aad
TraceStateProps ==
    /\ (last.op = "seal" /\ last.kind = "ok") =>
          /\ LastSealed.nonce = ComputeNonce(AeadOf(ctx[last.c]), ctx[last.c].bn, LastSealed.seq)
          /\ BLen(LastSealed.ct) = BLen(LastSealed.pt) /\ BLen(LastSealed.tag) = 16
          /\ \A i \in 1..(Len(sent[last.c]) - 1) :
                 sent[last.c][i].ep = LastSealed.ep => sent[last.c][i].nonce # LastSealed.nonce
    /\ (last.op = "open" /\ last.kind = "ok") =>
          /\ \/ \E s \in DOMAIN sent : \E i \in 1..Len(sent[s]) : SealedUnder(sent[s][i], last.c, LastRcvd)
             \/ \E i \in 1..Len(shots) : SealedUnder(shots[i], last.c, LastRcvd)
          /\ \A i \in 1..(Len(rcvd[last.c]) - 1) :
                 rcvd[last.c][i].ep = LastRcvd.ep => ByteLt(rcvd[last.c][i].seq, LastRcvd.seq)

(***************************************************************************)
(* The per-call properties above talk about `last`.  Models hide `last`    *)
(* from the state fingerprint (VIEW CoreView), so they are asserted on     *)
(* every generated TRANSITION from an ACTION_CONSTRAINT instead of being   *)
(* evaluated as invariants on every distinct state.                        *)
(***************************************************************************)
CheckLast ==
    /\ Assert(AdvanceByOne', "AdvanceByOne")
    /\ Assert(DeadAfterLimit', "DeadAfterLimit")
    /\ Assert(LiveBeforeLimit', "LiveBeforeLimit")
    /\ Assert(FailureIsStutter', "FailureIsStutter")
    /\ Assert(TamperedRejected', "TamperedRejected")
    /\ Assert(VerbatimDecision', "VerbatimDecision")
    /\ Assert(ExportIsPure', "ExportIsPure")
    /\ Assert(ExportOnlyPanics', "ExportOnlyPanics")

(************** C07 / C08: key material is shared iff parameters agree ******)
KeyMat(c) == <<ctx[c].key, ctx[c].bn, ctx[c].exp>>
SharesAny(a, b) == \/ (ctx[a].key = ctx[b].key /\ ctx[a].key # <<>>)
                   \/ (ctx[a].bn = ctx[b].bn /\ ctx[a].bn # <<>>)
                   \/ ctx[a].exp = ctx[b].exp
=============================================================================
