------------------------------ MODULE HpkeKem ------------------------------
(***************************************************************************)
(* RFC 9180 section 4.1 (DHKEM) and 7.1.3 (DeriveKeyPair).                 *)
(*                                                                         *)
(* Private keys are byte strings (terms); PK and DH are free constructors  *)
(* with the one law DH(a, PK(b)) = DH(b, PK(a)), realised by a normal form *)
(* whose key is the SET of the two private keys.                           *)
(***************************************************************************)
EXTENDS HpkeKdf

PK(kem, sk) == T(<<"pk", kem, sk>>, Npk(kem))

IsHonestPk(kem, pk) ==
    Len(pk) = 1 /\ pk[1][1] = "t" /\ pk[1][2][1] = "pk" /\ pk[1][2][2] = kem
SkOfPk(pk) == pk[1][2][3]

(***************************************************************************)
(* X25519: the seven u-coordinates below 2^255 whose X25519 output is the  *)
(* all-zero string for every scalar (0, 1, p-1, p, p+1 and the two points  *)
(* of order 8; little-endian), each also with bit 255 set (RFC 7748 masks  *)
(* that bit): the 14 encodings RFC 9180 section 7.1.4 tells us to refuse.  *)
(***************************************************************************)
SmallOrderBase == <<
    <<0, 0, 0, 0, 0, 0, 0, 0, 0, 0, 0, 0, 0, 0, 0, 0, 0, 0, 0, 0, 0, 0, 0, 0, 0, 0, 0, 0, 0, 0, 0, 0>>,
    <<1, 0, 0, 0, 0, 0, 0, 0, 0, 0, 0, 0, 0, 0, 0, 0, 0, 0, 0, 0, 0, 0, 0, 0, 0, 0, 0, 0, 0, 0, 0, 0>>,
    <<236, 255, 255, 255, 255, 255, 255, 255, 255, 255, 255, 255, 255, 255, 255, 255, 255, 255, 255, 255, 255, 255, 255, 255, 255, 255, 255, 255, 255, 255, 255, 127>>,
    <<237, 255, 255, 255, 255, 255, 255, 255, 255, 255, 255, 255, 255, 255, 255, 255, 255, 255, 255, 255, 255, 255, 255, 255, 255, 255, 255, 255, 255, 255, 255, 127>>,
    <<238, 255, 255, 255, 255, 255, 255, 255, 255, 255, 255, 255, 255, 255, 255, 255, 255, 255, 255, 255, 255, 255, 255, 255, 255, 255, 255, 255, 255, 255, 255, 127>>,
    <<224, 235, 122, 124, 59, 65, 184, 174, 22, 86, 227, 250, 241, 159, 196, 106, 218, 9, 141, 235, 156, 50, 177, 253, 134, 98, 5, 22, 95, 73, 184, 0>>,
    <<95, 156, 149, 188, 163, 80, 140, 36, 177, 208, 177, 85, 156, 131, 239, 91, 4, 68, 92, 196, 88, 28, 142, 134, 216, 34, 78, 221, 208, 159, 17, 87>> >>
SmallOrderEncodings ==
    {SmallOrderBase[i] : i \in 1..7} \cup {[SmallOrderBase[i] EXCEPT ![32] = @ + 128] : i \in 1..7}

IsSmallOrder(kem, pk) ==
    kem = KEM_X25519 /\ IsAllLit(pk) /\ LitOf(pk) \in SmallOrderEncodings

(***************************************************************************)
(* DH(sk, pk): [ok |-> FALSE] when the result is the all-zero string (only *)
(* possible for X25519, section 7.1.4), otherwise the Ndh-byte result.     *)
(* NIST public keys are validated at deserialisation (HpkeCodec), so their *)
(* DH never fails.                                                         *)
(***************************************************************************)
DH(kem, sk, pk) ==
    IF IsSmallOrder(kem, pk) THEN [ok |-> FALSE, v |-> <<>>]
    ELSE IF IsHonestPk(kem, pk)
         THEN [ok |-> TRUE, v |-> T(<<"dh", kem, {sk, SkOfPk(pk)}>>, Ndh(kem))]
         ELSE [ok |-> TRUE, v |-> T(<<"dhraw", kem, sk, pk>>, Ndh(kem))]

(***************************************************************************)
(* DeriveKeyPair (section 7.1.3).                                          *)
(*   X25519:  sk = LabeledExpand(dkp_prk, "sk", "", Nsk)                   *)
(*   NIST:    candidate(c) = LabeledExpand(dkp_prk, "candidate", I2OSP(c,1), Nsk)  *)
(*            with byte 0 masked; sk = first candidate, c = 0..255, in     *)
(*            [1, order-1].  The loop is the term "firstvalid" over the    *)
(*            candidate as a function of the counter byte (the "hole").    *)
(***************************************************************************)
Hole == T(<<"hole">>, 1)
Mask(bs, m) == T(<<"mask", m, bs>>, BLen(bs))

DeriveSk(kem, ikm) ==
    LET h   == KemHash(kem)
        sid == SuiteIdKem(kem)
        dkp == LabeledExtract(h, sid, <<>>, L_dkp_prk, ikm)
    IN  IF kem = KEM_X25519
        THEN LabeledExpand(h, sid, dkp, L_sk, <<>>, Nsk(kem))
        ELSE T(<<"firstvalid", kem,
                 Mask(LabeledExpand(h, sid, dkp, L_candidate, Hole, Nsk(kem)), KeygenBitmask(kem))>>,
               Nsk(kem))

DeriveKeyPair(kem, ikm) == LET sk == DeriveSk(kem, ikm) IN [sk |-> sk, pk |-> PK(kem, sk)]

\* GenerateKeyPair: DeriveKeyPair of the first Nsk bytes the RNG hands out
GenKeyPair(kem, rng) == DeriveKeyPair(kem, Take(rng, Nsk(kem)))

\* optional keys are records with a presence flag (TLC cannot compare a record with a tuple)
NoId     == [has |-> FALSE, sk |-> <<>>, pk |-> <<>>]
Id(sk, pk) == [has |-> TRUE, sk |-> sk, pk |-> pk]
NoPk     == [has |-> FALSE, pk |-> <<>>]
SomePk(pk) == [has |-> TRUE, pk |-> pk]

(***************************************************************************)
(* Encap / AuthEncap with a given ephemeral private key, Decap / AuthDecap. *)
(* Result: [ok, ss, enc].  idS is NoId or Id(sk, pk) (the library takes the *)
(* sender's pair as given; it need not be a matching pair).                *)
(***************************************************************************)
EncapWithEph(kem, pkR, idS, skE) ==
    LET dhE == DH(kem, skE, pkR)
        enc == PK(kem, skE)
    IN  IF ~dhE.ok THEN [ok |-> FALSE, ss |-> <<>>, enc |-> <<>>]
        ELSE IF ~idS.has
        THEN [ok |-> TRUE, enc |-> enc,
              ss |-> ExtractAndExpand(kem, dhE.v, Cat(enc, pkR))]
        ELSE LET dhS == DH(kem, idS.sk, pkR)
             IN  IF ~dhS.ok THEN [ok |-> FALSE, ss |-> <<>>, enc |-> <<>>]
                 ELSE [ok |-> TRUE, enc |-> enc,
                       ss |-> ExtractAndExpand(kem, Cat(dhE.v, dhS.v),
                                               Cat(Cat(enc, pkR), idS.pk))]

Encap(kem, pkR, idS, rng) == EncapWithEph(kem, pkR, idS, GenKeyPair(kem, rng).sk)

\* pkS is NoPk or SomePk(expected sender public key)
Decap(kem, skR, pkS, enc) ==
    LET dhE == DH(kem, skR, enc)
        pkR == PK(kem, skR)
    IN  IF ~dhE.ok THEN [ok |-> FALSE, ss |-> <<>>]
        ELSE IF ~pkS.has
        THEN [ok |-> TRUE, ss |-> ExtractAndExpand(kem, dhE.v, Cat(enc, pkR))]
        ELSE LET dhS == DH(kem, skR, pkS.pk)
             IN  IF ~dhS.ok THEN [ok |-> FALSE, ss |-> <<>>]
                 ELSE [ok |-> TRUE,
                       ss |-> ExtractAndExpand(kem, Cat(dhE.v, dhS.v), Cat(Cat(enc, pkR), pkS.pk))]
=============================================================================
