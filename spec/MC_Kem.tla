------------------------------- MODULE MC_Kem -------------------------------
(***************************************************************************)
(* Bounded instance for the DHKEM properties (C03, and the KEM-level part  *)
(* of C10): the stateless calls DeriveKeyPair, GenerateKeyPair, sk -> pk,  *)
(* Encap / AuthEncap, Decap / AuthDecap for every KEM, every assignment of *)
(* key roles and input-keying-material length class.                       *)
(***************************************************************************)
EXTENDS HpkeKem, Json

CONSTANTS KemSet,
          IkmSweep,      \* every ikm length 0..IkmSweep
          NIkm,          \* number of seeded 32..66-byte ikm values per KEM besides the length classes
          SmallOrder,    \* TRUE: also offer the X25519 small-order encodings as peer keys
          Emit

\* found by tools/find_reject_witness.py (32-byte inputs)
MoreWitnesses == {Lit(<<170, 170, 170, 170, 170, 170, 170, 170, 170, 170, 170, 170, 170, 170, 170, 170, 170, 170, 170, 170, 170, 170, 170, 170, 0, 0, 0, 0, 1, 249, 95, 97>>),
                  Lit(<<170, 170, 170, 170, 170, 170, 170, 170, 170, 170, 170, 170, 170, 170, 170, 170, 170, 170, 170, 170, 170, 170, 170, 170, 0, 0, 0, 0, 119, 87, 50, 23>>)}

VARIABLE last

EmptyF == [x \in {} |-> <<>>]
Rec(op, kem, bytes, kind, err, out, outn) ==
    [op |-> op, c |-> "", form |-> "", plain |-> [kem |-> kem], bytes |-> bytes, kind |-> kind, err |-> err,
     out |-> out, outn |-> outn, pre |-> [seq |-> <<>>, ovf |-> FALSE], post |-> [seq |-> <<>>, ovf |-> FALSE],
     untouched |-> FALSE]

\* (... and the lengths at which the hashed string "HPKE-v1" || "KEM" || id || "dkp_prk" || ikm, 19 bytes of header,
\* reaches a multiple of 1024 .. 8192)
IkmLens(kem) == {0, 1, Nsk(kem) - 1, Nsk(kem), Nsk(kem) + 1, 64, 65, 1000, 65535, 65536, 70000}
                \cup {b * m - 20 + d : b \in {1024, 2048, 4096, 8192}, m \in {1, 2}, d \in {0, 1, 2}}
\* Inputs whose FIRST candidate is >= the group order, so that DeriveKeyPair must go round the loop (RFC 9180
\* 7.1.3; probability 2^-32 per input on P-256, found by exhaustive search, and far out of reach on P-384/P-521).
\* The oracle confirms on every run that each of them really takes the rejection branch.
RejectionWitnesses(kem) ==
    IF kem = KEM_P256
    THEN {Lit(<<13, 0, 0, 0, 0, 5, 26, 207, 41>>)} \cup MoreWitnesses
    ELSE {}
Ikms(kem) == RejectionWitnesses(kem) \cup {Leaf("ikmlen" \o ToString(n), n) : n \in IkmLens(kem) \cup 0..IkmSweep}
             \cup {Leaf("ikm" \o ToString(i) \o "k" \o ToString(kem), Nsk(kem)) : i \in 1..NIkm}

KP(name, kem) == DeriveKeyPair(kem, Leaf("ikm" \o name \o ToString(kem), Nsk(kem)))
RngOf(name, kem, extra) == Leaf("rng" \o name \o ToString(kem) \o "x" \o ToString(extra), Nsk(kem) + extra)

DeriveCalls(kem) ==
    {Rec("derive_keypair", kem, [ikm |-> ikm], "ok", "",
         [sk |-> DeriveKeyPair(kem, ikm).sk, pk |-> DeriveKeyPair(kem, ikm).pk], EmptyF) : ikm \in Ikms(kem)}
GenCalls(kem) ==
    {Rec("gen_keypair", kem, [rng |-> RngOf("G", kem, x)], "ok", "",
         [sk |-> GenKeyPair(kem, RngOf("G", kem, x)).sk, pk |-> GenKeyPair(kem, RngOf("G", kem, x)).pk],
         [drawn |-> Nsk(kem)]) : x \in {0, 1, 40}}
SkToPkCalls(kem) ==
    {Rec("sk_to_pk", kem, [sk |-> KP(n, kem).sk], "ok", "", [pk |-> PK(kem, KP(n, kem).sk)], EmptyF) : n \in {"R", "S", "E"}}

\* peers: honest public keys, and (X25519) raw encodings of small order
PeerKeys(kem) == {KP(n, kem).pk : n \in {"R", "S"}}
                 \cup (IF SmallOrder /\ kem = KEM_X25519 THEN {Lit(e) : e \in SmallOrderEncodings} ELSE {})

EncapRec(kem, pkR, idS, rng) ==
    LET e == Encap(kem, pkR, idS, rng)
        b == [pk_r |-> pkR, rng |-> rng] @@ (IF idS.has THEN [sk_s |-> idS.sk, pk_s |-> idS.pk] ELSE EmptyF)
    IN  IF e.ok THEN Rec("encap", kem, b, "ok", "", [ss |-> e.ss, enc |-> e.enc], [drawn |-> Nsk(kem)])
        ELSE Rec("encap", kem, b, "err", "EncapError", EmptyF, EmptyF)
EncapCalls(kem) ==
    {EncapRec(kem, pkR, idS, RngOf("E", kem, 2)) :
        pkR \in PeerKeys(kem),
        idS \in {NoId, Id(KP("S", kem).sk, KP("S", kem).pk), Id(KP("R", kem).sk, KP("R", kem).pk),
                 Id(KP("S", kem).sk, KP("E", kem).pk)}}     \* the pair is taken as given, matching or not

DecapRec(kem, skR, pkS, enc) ==
    LET d == Decap(kem, skR, pkS, enc)
        b == [sk_r |-> skR, enc |-> enc] @@ (IF pkS.has THEN [pk_s |-> pkS.pk] ELSE EmptyF)
    IN  IF d.ok THEN Rec("decap", kem, b, "ok", "", [ss |-> d.ss], EmptyF)
        ELSE Rec("decap", kem, b, "err", "DecapError", EmptyF, EmptyF)
EncOf(kem) == GenKeyPair(kem, RngOf("E", kem, 2)).pk
DecapCalls(kem) ==
    {DecapRec(kem, KP(r, kem).sk, pkS, enc) :
        r \in {"R", "S"},
        pkS \in {NoPk} \cup {SomePk(k) : k \in PeerKeys(kem) \cup {KP("E", kem).pk}},
        enc \in {EncOf(kem), KP("S", kem).pk} \cup (IF SmallOrder /\ kem = KEM_X25519
                                                     THEN {Lit(e) : e \in SmallOrderEncodings} ELSE {})}

\* NIST curves, special VALUES: the scalars 1 and n-1 and valid points whose x-coordinate has leading zero bytes
\* (x < 2^16; x < 2^(8(Ncoord-2))).  With them the DH output - the x-coordinate of sk * P - has leading zeros too
\* (1 * P = P, (n-1) * P = -P): fixed-width encoding of Diffie-Hellman outputs, kem_context and the keys themselves.
\* (The terms "mksk" / "mkxy" are the constructed inputs of MC_Codec.tla; the oracle builds them from the curve.)
SpecialSk(kem) == {T(<<"mksk", kem, rc, 1>>, Nsk(kem)) : rc \in {"one", "two", "nminus1"}}
SpecialPk(kem) == {Cat(Lit(<<4>>), T(<<"mkxy", kem, rc, i>>, 2 * Nsk(kem))) : rc \in {"smallx", "leadzero"}, i \in 1..2}
                  \cup {Cat(Lit(<<4>>), T(<<"mkxy", kem, "xzero", 1>>, 2 * Nsk(kem)))}     \* (0, sqrt(b)): a valid point
SpecialCalls(kem) ==
    IF kem \notin NistKems THEN {}
    ELSE {Rec("sk_to_pk", kem, [sk |-> sk], "ok", "", [pk |-> PK(kem, sk)], EmptyF) : sk \in SpecialSk(kem)}
         \cup {DecapRec(kem, sk, NoPk, enc) : sk \in SpecialSk(kem) \cup {KP("R", kem).sk}, enc \in SpecialPk(kem)}
         \cup {DecapRec(kem, sk, SomePk(pkS), EncOf(kem)) : sk \in SpecialSk(kem), pkS \in SpecialPk(kem)}
         \cup {EncapRec(kem, pkR, idS, RngOf("E", kem, 2)) :
                  pkR \in SpecialPk(kem), idS \in {NoId} \cup {Id(sk, PK(kem, sk)) : sk \in SpecialSk(kem)}}

\* X25519, special VALUES of the Diffie-Hellman output: peer keys constructed (by the oracle, from the scalar) so that
\* X25519(sk, peer) is a legitimate, non-zero output of a particular SHAPE - words that XOR to zero, a zero upper or
\* lower half, a single non-zero byte, 32 equal bytes.  None of them is the all-zero value, so setup must succeed
\* and the shared secret is the RFC's; a sloppy zero test (XOR for OR, a dropped remainder) or a truncating encoder shows.
Shapes == {"xorfold", "abab", "lowzero", "highzero", "onebyte", "allsame"}
ShapedPeer(sk, sh, i) == T(<<"x25519pre", sk, sh, i>>, 32)
ShapedCalls(kem) ==
    IF kem # KEM_X25519 THEN {}
    ELSE {DecapRec(kem, KP("R", kem).sk, NoPk, ShapedPeer(KP("R", kem).sk, sh, i)) : sh \in Shapes, i \in 1..2}
         \cup {DecapRec(kem, KP("R", kem).sk, SomePk(ShapedPeer(KP("R", kem).sk, sh, 1)), EncOf(kem)) : sh \in Shapes}
         \cup {LET ske == GenKeyPair(kem, RngOf("E", kem, 2)).sk
                IN EncapRec(kem, ShapedPeer(ske, sh, 1), NoId, RngOf("E", kem, 2)) : sh \in Shapes}
\* special RNG outputs: all-zero and all-0xff draws followed by other bytes (the draw is used as it is: exactly Nsk bytes)
SpecialRngs(kem) == {Cat(Lit(Zeros(Nsk(kem))), Leaf("rngafter0", 40)), Cat(Lit(Fill(255, Nsk(kem))), Leaf("rngafterf", 40))}
SpecialRngCalls(kem) ==
    {Rec("gen_keypair", kem, [rng |-> r], "ok", "", [sk |-> GenKeyPair(kem, r).sk, pk |-> GenKeyPair(kem, r).pk], [drawn |-> Nsk(kem)])
     : r \in SpecialRngs(kem)}
    \cup {EncapRec(kem, KP("R", kem).pk, NoId, r) : r \in SpecialRngs(kem)}

Calls == UNION {DeriveCalls(k) \cup GenCalls(k) \cup SkToPkCalls(k) \cup EncapCalls(k) \cup DecapCalls(k) \cup SpecialCalls(k)
                \cup ShapedCalls(k) \cup SpecialRngCalls(k) : k \in KemSet}

Init == last = [op |-> "init"]
Next == \E c \in Calls : last' = c
vars == <<last>>

(***************************************************************************)
(* Spec-level properties: encapsulation and decapsulation agree (through   *)
(* the DH commutativity law) for matching roles, in both variants; the     *)
(* public key returned with a private key is the public key OF it; key     *)
(* generation is derivation from the first Nsk random bytes.               *)
(***************************************************************************)
EncapDecapAgree ==
    \A kem \in KemSet : \A auth \in BOOLEAN :
        LET r == KP("R", kem) s == KP("S", kem)
            e == Encap(kem, r.pk, IF auth THEN Id(s.sk, s.pk) ELSE NoId, RngOf("E", kem, 2))
            d == Decap(kem, r.sk, IF auth THEN SomePk(s.pk) ELSE NoPk, e.enc)
            w == Decap(kem, s.sk, IF auth THEN SomePk(s.pk) ELSE NoPk, e.enc)     \* wrong recipient
            x == Decap(kem, r.sk, IF auth THEN SomePk(r.pk) ELSE SomePk(s.pk), e.enc) \* wrong/unexpected sender
        IN  e.ok /\ d.ok /\ d.ss = e.ss /\ w.ss # e.ss /\ x.ss # e.ss
PkOfSk == \A kem \in KemSet : \A ikm \in Ikms(kem) :
              DeriveKeyPair(kem, ikm).pk = PK(kem, DeriveKeyPair(kem, ikm).sk)
GenIsDerive == \A kem \in KemSet :
              GenKeyPair(kem, RngOf("G", kem, 40)) = DeriveKeyPair(kem, Take(RngOf("G", kem, 40), Nsk(kem)))
SmallOrderFails ==
    (last.op = "encap" /\ IsSmallOrder(last.plain.kem, last.bytes.pk_r)) => last.kind = "err"
ASSUME EncapDecapAgree /\ PkOfSk /\ GenIsDerive

ViewNone == 0       \* the calls are stateless: one state, every call a transition from it
CheckCalls == Assert(SmallOrderFails', "SmallOrderFails")
EmitTr == Emit => PrintT(ToJson([last |-> last']))
=============================================================================
