----------------------------- MODULE HpkeTrace -----------------------------
(***************************************************************************)
(* Trace specification: impl -> spec.                                      *)
(*                                                                         *)
(* A log of calls made on the real library (by a random driver that knows  *)
(* nothing of the model) is accepted iff every logged call is a step of    *)
(* Hpke.tla with exactly the logged result kind, error variant and counter *)
(* state; all invariants of HpkeProps are evaluated in every state and the *)
(* per-call properties on every step.                                      *)
(*                                                                         *)
(* Byte arguments are logged as PROVENANCE expressions - what the driver   *)
(* did to obtain them, never what they mean:                               *)
(*    <<"lit", <<b..>>>>      these literal bytes                          *)
(*    <<"fresh", name, n>>    n seeded random bytes under this name        *)
(*    <<"out", k, field>>     output `field` of logged call k              *)
(*    <<"flip", e, bit>>, <<"take", e, n>>, <<"drop", e, n>>,              *)
(*    <<"cat", e1, e2>>                                                    *)
(* and are evaluated here against the specification's OWN prediction of    *)
(* the outputs of call k.  For every call the predicted outputs are        *)
(* printed; the driver compares them (equality pattern / exact bytes) with *)
(* the bytes the library returned.                                         *)
(***************************************************************************)
EXTENDS HpkeProps, Json, IOUtils

VARIABLES n,       \* next log line
          outs,    \* predicted outputs of the calls so far (one record per line)
          bad      \* "" or why the log is not a behaviour of the specification

Tr == ndJsonDeserialize(IOEnv.HPKE_TRACE)
Ev == Tr[n]

RECURSIVE Val(_)
Val(e) ==
    CASE e[1] = "lit"   -> Lit(e[2])
      [] e[1] = "fresh" -> Leaf(e[2], e[3])
      [] e[1] = "out"   -> outs[e[2]][e[3]]
      [] e[1] = "flip"  -> Flip(Val(e[2]), e[3])
      [] e[1] = "take"  -> Take(Val(e[2]), e[3])
      [] e[1] = "drop"  -> Drop(Val(e[2]), e[3])
      [] e[1] = "cat"   -> Cat(Val(e[2]), Val(e[3]))

A(name) == Val(Ev.args[name])
Has(name) == name \in DOMAIN Ev.args

SenderP == [suite |-> Ev.suite, mode |-> Ev.mode, pkR |-> A("pk_r"), info |-> A("info"),
            psk |-> IF Has("psk") THEN A("psk") ELSE <<>>, pskId |-> IF Has("psk_id") THEN A("psk_id") ELSE <<>>,
            skS |-> IF Has("sk_s") THEN A("sk_s") ELSE <<>>, pkS |-> IF Has("pk_s") THEN A("pk_s") ELSE <<>>,
            rng |-> A("rng")]
RecvP == [suite |-> Ev.suite, mode |-> Ev.mode, skR |-> A("sk_r"), enc |-> A("enc"), info |-> A("info"),
          psk |-> IF Has("psk") THEN A("psk") ELSE <<>>, pskId |-> IF Has("psk_id") THEN A("psk_id") ELSE <<>>,
          pkS |-> IF Has("pk_s") THEN A("pk_s") ELSE <<>>]
DlvOf == [ok |-> TRUE, body |-> A("ct"), tag |-> IF Has("tag") THEN A("tag") ELSE <<>>, aad |-> A("aad")]
NoD == [k |-> "bytes", s |-> "", i |-> 0, j |-> 0, n |-> 0]

\* stateless calls are explained by the KEM operators directly
KemCall ==
    CASE Ev.op = "derive_keypair" ->
            LET kp == DeriveKeyPair(Ev.kem, A("ikm")) IN [kind |-> "ok", err |-> "", out |-> [sk |-> kp.sk, pk |-> kp.pk]]
      [] Ev.op = "sk_to_pk" -> [kind |-> "ok", err |-> "", out |-> [pk |-> PK(Ev.kem, A("sk"))]]
      [] Ev.op = "encap" ->
            LET e == Encap(Ev.kem, A("pk_r"), IF Has("sk_s") THEN Id(A("sk_s"), A("pk_s")) ELSE NoId, A("rng"))
            IN IF e.ok THEN [kind |-> "ok", err |-> "", out |-> [ss |-> e.ss, enc |-> e.enc]]
               ELSE [kind |-> "err", err |-> E_ENC, out |-> EmptyF]
      [] Ev.op = "decap" ->
            LET d == Decap(Ev.kem, A("sk_r"), IF Has("pk_s") THEN SomePk(A("pk_s")) ELSE NoPk, A("enc"))
            IN IF d.ok THEN [kind |-> "ok", err |-> "", out |-> [ss |-> d.ss]]
               ELSE [kind |-> "err", err |-> E_DEC, out |-> EmptyF]

SpecStep ==
    CASE Ev.op = "setup_s" -> SetupS(Ev.ctx, SenderP)
      [] Ev.op = "setup_r" -> SetupR(Ev.ctx, RecvP)
      [] Ev.op = "raw_ctx" -> HookRawCtx([c |-> Ev.ctx, role |-> Ev.role, suite |-> Ev.suite, key |-> A("key"),
                                          bn |-> A("base_nonce"), exp |-> A("exporter_secret")])
      [] Ev.op = "set_seq" -> HookSetSeq(Ev.ctx, [seq |-> Ev.seq_in, ovf |-> Ev.ovf_in])
      [] Ev.op = "seal"    -> Seal(Ev.ctx, A("pt"), A("aad"), Ev.form)
      [] Ev.op = "open"    -> OpenBytes(Ev.ctx, DlvOf, NoD, Ev.form)
      [] Ev.op = "export"  -> Export(Ev.ctx, A("exporter_ctx"), Ev.len)
      [] Ev.op = "single_shot_seal" -> SingleShotSeal([p |-> SenderP, pt |-> A("pt"), aad |-> A("aad")], Ev.form)
      [] Ev.op = "single_shot_open" -> SingleShotOpenBytes(RecvP, DlvOf, NoD, Ev.form)
      [] OTHER -> /\ UNCHANGED <<ctx, sent, rcvd, shots, used, hist>>
                  /\ last' = [op |-> Ev.op, c |-> "", form |-> "", plain |-> EmptyF, bytes |-> EmptyF,
                              kind |-> KemCall.kind, err |-> KemCall.err, out |-> KemCall.out, outn |-> EmptyF,
                              pre |-> NoState, post |-> NoState, untouched |-> FALSE]

\* does the specification's step agree with what was logged?
Disagreement ==
    IF last'.kind # Ev.kind THEN "result kind"
    ELSE IF last'.kind = "err" /\ last'.err # Ev.err THEN "error variant"
    ELSE IF last'.post.seq # <<>> /\ Ev.seq # <<>> /\ (last'.post.seq # Ev.seq \/ last'.post.ovf # Ev.ovf) THEN "counter state"
    ELSE ""

Step ==
    /\ bad = ""
    /\ n <= Len(Tr)
    /\ SpecStep
    /\ n' = n + 1
    /\ outs' = Append(outs, last'.out)
    /\ bad' = Disagreement
    /\ PrintT(ToJson([i |-> n, kind |-> last'.kind, err |-> last'.err, out |-> last'.out, post |-> last'.post,
                      bad |-> bad', untouched |-> last'.untouched]))

TraceInit == Init /\ n = 1 /\ outs = <<>> /\ bad = ""
TraceSpec == TraceInit /\ [][Step]_<<vars, n, outs, bad>>

NoMenu(x) == {}
NoMenu2(x, y) == {}
Agrees == bad = ""
=============================================================================
