------------------------------ MODULE Counter ------------------------------
(***************************************************************************)
(* The sequence counter of an encryption context with TRUE 64-bit integers *)
(* (Apalache; TLC's integers are 32 bit, which is why Hpke.tla carries the *)
(* counter as 8 bytes).  One context; the environment seals / opens.       *)
(* Proved as an inductive invariant, i.e. for histories of ANY length:     *)
(*   - no sequence number is ever used twice (no nonce reuse),             *)
(*   - the numbers used are exactly 0 .. seq-1 (plus 2^64-1 once latched), *)
(*   - the counter never exceeds 2^64-1 and never decreases,               *)
(*   - once the latch is set it stays set and nothing more is used.        *)
(* Binding to Hpke.tla: AdvanceSeq there is ByteInc on 8 bytes with the    *)
(* same latch; MC_Seq checks on every transition (AdvanceByOne) that the   *)
(* byte counter moves exactly like this integer counter at every carry     *)
(* boundary.                                                               *)
(***************************************************************************)
EXTENDS Integers, Apalache

MAX == 18446744073709551615        \* 2^64 - 1

VARIABLES
    \* @type: Int;
    seq,
    \* @type: Bool;
    ovf,
    \* @type: Set(Int);
    used      \* sequence numbers under which a message was sealed (or accepted)

Init == seq = 0 /\ ovf = FALSE /\ used = {}

\* a successful seal / accepted open: uses the current number, then increments or latches
Use ==
    /\ ~ovf
    /\ used' = used \cup {seq}
    /\ IF seq = MAX THEN ovf' = TRUE /\ seq' = seq
                    ELSE ovf' = FALSE /\ seq' = seq + 1
\* a refused call (MessageLimitReached, OpenError): nothing changes
Refuse == UNCHANGED <<seq, ovf, used>>

Next == Use \/ Refuse

\* the inductive invariant
IndInv ==
    /\ seq \in 0..MAX
    /\ ovf \in BOOLEAN
    /\ ovf => seq = MAX
    /\ \A n \in used : n \in 0..MAX
    /\ ~ovf => (\A n \in used : n < seq)           \* everything used lies strictly below the counter
    /\ ~ovf => seq \notin used                      \* hence the next number is fresh: no reuse

\* an ARBITRARY state satisfying the invariant (Gen: any set of up to 6 numbers) for the inductive step
IndInit == /\ seq \in 0..MAX /\ ovf \in BOOLEAN /\ used = Gen(6) /\ IndInv

\* what a user relies on (consequences of IndInv)
NextIsFresh == ~ovf => seq \notin used
InRange == seq >= 0 /\ seq <= MAX
=============================================================================
