------------------------------ MODULE HpkeCtx ------------------------------
(***************************************************************************)
(* The encryption context (RFC 9180 section 5.2) as pure step operators:   *)
(* state x arguments -> [result, state'].  All API actions of Hpke.tla,    *)
(* including the composite ones (allocating seal/open, single-shot), are   *)
(* compositions of these.                                                  *)
(*                                                                         *)
(* A context's whole mutable state is (seq, ovf); key, base nonce and      *)
(* exporter secret are fixed at creation.                                  *)
(***************************************************************************)
EXTENDS HpkeSchedule

\* `origin` is a ghost field: the parameters the context was created from (no step reads it)
NewCtx(role, suite, km, origin) ==
    [role |-> role, suite |-> suite, key |-> km.key, bn |-> km.bn, exp |-> km.exp,
     seq |-> Seq0, ovf |-> FALSE, origin |-> origin]

AeadOf(st)   == st.suite[3]
IsExportOnly(st) == AeadOf(st) = AEAD_EXPORT

\* the ideal AEAD: ciphertext body and tag are free terms.  For the three RFC 9180 AEADs the body
\* is pt XOR keystream(key, nonce) - it does not depend on the aad - so the body term omits it
\* (otherwise equal byte strings would have unequal terms); the tag depends on everything.
AeadCt(a, key, nonce, pt)       == T(<<"aeadct", a, key, nonce, pt>>, BLen(pt))
AeadTag(a, key, nonce, aad, pt) == T(<<"aeadtag", a, key, nonce, aad, pt>>, Nt(a))

NonceOf(st) == ComputeNonce(AeadOf(st), st.bn, st.seq)

\* IncrementSeq with the library's 64-bit counter and latch (deviation D1): the counter value
\* 2^64-1 is still used; the attempt to go beyond it sets the latch instead of wrapping.
AdvanceSeq(st) ==
    IF st.seq = SeqMax THEN [st EXCEPT !.ovf = TRUE] ELSE [st EXCEPT !.seq = ByteInc(@)]

E_MLR  == "MessageLimitReached"
E_OPEN == "OpenError"
E_KDF  == "KdfOutputTooLong"
E_ENC  == "EncapError"
E_DEC  == "DecapError"
E_LEN  == "IncorrectInputLength"
E_SEAL == "SealError"

(***************************************************************************)
(* ContextS.Seal, in-place detached form.  touched = FALSE means the       *)
(* caller's buffer is guaranteed unchanged.                                *)
(***************************************************************************)
SealStep(st, pt, aad) ==
    IF st.ovf
    THEN [kind |-> "err", err |-> E_MLR, ct |-> <<>>, tag |-> <<>>, touched |-> FALSE, st |-> st]
    ELSE IF IsExportOnly(st)
    THEN [kind |-> "panic", err |-> "", ct |-> <<>>, tag |-> <<>>, touched |-> FALSE, st |-> st]
    ELSE LET a == AeadOf(st) n == NonceOf(st)
         IN  [kind |-> "ok", err |-> "", touched |-> TRUE,
              ct  |-> AeadCt(a, st.key, n, pt),
              tag |-> AeadTag(a, st.key, n, aad, pt),
              st  |-> AdvanceSeq(st)]

\* allocating form: in-place ciphertext followed by the detached tag
SealAllocStep(st, pt, aad) ==
    LET r == SealStep(st, pt, aad) IN [r EXCEPT !.ct = Cat(r.ct, r.tag), !.tag = <<>>]

(***************************************************************************)
(* ContextR.Open, in-place detached form, with the ideal AEAD: the call    *)
(* succeeds iff (body, tag) is exactly what sealing some pt under this     *)
(* context's key, its CURRENT nonce and this aad produces.  Because terms  *)
(* are free, pt is read off the tag term.  Requires BLen(tag) = Nt.        *)
(***************************************************************************)
TagMatches(st, aad, tag) ==
    /\ Len(tag) = 1 /\ tag[1][1] = "t" /\ tag[1][2][1] = "aeadtag"
    /\ tag[1][2][2] = AeadOf(st)
    /\ tag[1][2][3] = st.key
    /\ tag[1][2][4] = NonceOf(st)
    /\ tag[1][2][5] = aad
PtOfTag(tag) == tag[1][2][6]

OpenStep(st, body, tag, aad) ==
    IF st.ovf
    THEN [kind |-> "err", err |-> E_MLR, pt |-> <<>>, touched |-> FALSE, st |-> st]
    ELSE IF IsExportOnly(st)
    THEN [kind |-> "panic", err |-> "", pt |-> <<>>, touched |-> FALSE, st |-> st]
    ELSE IF TagMatches(st, aad, tag)
            /\ body = AeadCt(AeadOf(st), st.key, NonceOf(st), PtOfTag(tag))
    THEN [kind |-> "ok", err |-> "", pt |-> PtOfTag(tag), touched |-> TRUE, st |-> AdvanceSeq(st)]
    ELSE [kind |-> "err", err |-> E_OPEN, pt |-> <<>>, touched |-> TRUE, st |-> st]

(***************************************************************************)
(* Allocating open: a ciphertext shorter than a tag is an OpenError;       *)
(* otherwise split off the last Nt bytes and open detached.                *)
(* OvfFirst: the library checks the length BEFORE the overflow latch, so a *)
(* short ciphertext on an exhausted context is OpenError, not              *)
(* MessageLimitReached (deviation D5; property C05 reads otherwise).       *)
(***************************************************************************)
OpenAllocStepWith(st, ct, aad, ovfFirst) ==
    LET nt == Nt(AeadOf(st)) n == BLen(ct)
    IN  IF ovfFirst /\ st.ovf
        THEN [kind |-> "err", err |-> E_MLR, pt |-> <<>>, touched |-> FALSE, st |-> st]
        ELSE IF n < nt
        THEN [kind |-> "err", err |-> E_OPEN, pt |-> <<>>, touched |-> FALSE, st |-> st]
        ELSE LET sp == SplitAt(ct, n - nt) IN OpenStep(st, sp[1], sp[2], aad)

(***************************************************************************)
(* Context.Export                                                          *)
(***************************************************************************)
ExportStep(st, ectx, L) ==
    IF ExportOk(st.suite, L)
    THEN [kind |-> "ok", err |-> "", out |-> ExportValue(st.suite, st.exp, ectx, L)]
    ELSE [kind |-> "err", err |-> E_KDF, out |-> <<>>]
=============================================================================
