---------------------------- MODULE HpkeSchedule ----------------------------
(***************************************************************************)
(* RFC 9180 section 5.1: KeySchedule, ComputeNonce, Export.                *)
(***************************************************************************)
EXTENDS HpkeKem

(***************************************************************************)
(* Mode inputs.  A mode value is a record [mode, psk, psk_id]; the library *)
(* uses the bundle's fields in the PSK modes and the empty defaults in     *)
(* Base / Auth (deviation D2 of DESIGN.md: a PSK mode with an EMPTY bundle *)
(* is accepted, and runs with mode byte 1 / 3 and empty psk and psk_id).   *)
(***************************************************************************)
PskBundleOk(psk, pskId) == (psk = <<>>) = (pskId = <<>>)

EffPsk(mode, psk)     == IF mode \in PskModes THEN psk ELSE <<>>
EffPskId(mode, pskId) == IF mode \in PskModes THEN pskId ELSE <<>>

KeySchedule(suite, mode, ss, info, psk, pskId) ==
    LET h    == KdfHash(suite[2])
        sid  == SuiteIdHpke(suite)
        pih  == LabeledExtract(h, sid, <<>>, L_psk_id_hash, EffPskId(mode, pskId))
        ih   == LabeledExtract(h, sid, <<>>, L_info_hash, info)
        ksc  == Cat(Cat(Lit(I2OSP1(mode)), pih), ih)
        sec  == LabeledExtract(h, sid, ss, L_secret, EffPsk(mode, psk))
    IN  [key |-> LabeledExpand(h, sid, sec, L_key, ksc, Nk(suite[3])),
         bn  |-> LabeledExpand(h, sid, sec, L_base_nonce, ksc, Nn(suite[3])),
         exp |-> LabeledExpand(h, sid, sec, L_exp, ksc, Nh(h))]

(***************************************************************************)
(* Mis-wirings of the PSK inputs (C15): what the key schedule would be if  *)
(* the bundle's two fields were connected differently.  "rfc" is the real  *)
(* one.  Used only to IDENTIFY a deviation, never as a prediction.         *)
(***************************************************************************)
WiringHyps == {"rfc", "swap", "nopsk", "noid", "pskboth", "idboth", "idcut1", "idcut2", "pskcut1", "pskcut2"}
CutTail(bs, k) == IF BLen(bs) > k THEN Take(bs, BLen(bs) - k) ELSE <<>>
KeyScheduleH(hyp, suite, mode, ss, info, psk, pskId) ==
    CASE hyp = "rfc"     -> KeySchedule(suite, mode, ss, info, psk, pskId)
      [] hyp = "swap"    -> KeySchedule(suite, mode, ss, info, pskId, psk)
      [] hyp = "nopsk"   -> KeySchedule(suite, mode, ss, info, <<>>, pskId)
      [] hyp = "noid"    -> KeySchedule(suite, mode, ss, info, psk, <<>>)
      [] hyp = "pskboth" -> KeySchedule(suite, mode, ss, info, psk, psk)
      [] hyp = "idboth"  -> KeySchedule(suite, mode, ss, info, pskId, pskId)
      \* the value enters the schedule with its last one or two bytes missing
      [] hyp = "idcut1"  -> KeySchedule(suite, mode, ss, info, psk, CutTail(pskId, 1))
      [] hyp = "idcut2"  -> KeySchedule(suite, mode, ss, info, psk, CutTail(pskId, 2))
      [] hyp = "pskcut1" -> KeySchedule(suite, mode, ss, info, CutTail(psk, 1), pskId)
      [] hyp = "pskcut2" -> KeySchedule(suite, mode, ss, info, CutTail(psk, 2), pskId)

\* ComputeNonce(seq) = base_nonce XOR I2OSP(seq, Nn); seq is an 8-byte counter (deviation D1)
ComputeNonce(aead, bn, seq) == BXor(bn, Lit(Zeros(Nn(aead) - 8) \o seq))

\* Context.Export(exporter_context, L) = LabeledExpand(exporter_secret, "sec", exporter_context, L)
ExportOk(suite, L) == ExpandOk(KdfHash(suite[2]), L)
ExportValue(suite, exp, ectx, L) ==
    LabeledExpand(KdfHash(suite[2]), SuiteIdHpke(suite), exp, L_sec, ectx, L)
=============================================================================
