----------------------------- MODULE HpkeBytes -----------------------------
(***************************************************************************)
(* Symbolic byte strings.                                                  *)
(*                                                                         *)
(* A byte string is a sequence of chunks; a chunk is either                *)
(*     <<"b", <<b1,...,bn>>>>    n > 0 literal bytes (0..255), or          *)
(*     <<"t", term, n>>          n > 0 bytes produced by an opaque term.   *)
(* A term is a tuple whose first element is a string tag and whose arity   *)
(* and element kinds are fixed per tag, so TLC never has to compare values *)
(* of different kinds.  Strings are kept NORMALISED: no empty chunk, no    *)
(* two adjacent literal chunks, no two adjacent slices of one term that    *)
(* could be merged.  With that, equality of symbolic byte strings is       *)
(* equality of byte strings in the free term algebra.                      *)
(***************************************************************************)
EXTENDS Naturals, Sequences, FiniteSets, TLC
LOCAL INSTANCE Bitwise

Lit(s)        == IF s = <<>> THEN <<>> ELSE << <<"b", s>> >>
T(term, n)    == IF n = 0 THEN <<>> ELSE << <<"t", term, n>> >>
Leaf(name, n) == T(<<"leaf", name>>, n)

ChunkLen(c) == IF c[1] = "b" THEN Len(c[2]) ELSE c[3]

RECURSIVE BLen(_)
BLen(bs) == IF bs = <<>> THEN 0 ELSE ChunkLen(Head(bs)) + BLen(Tail(bs))

IsAllLit(bs) == bs = <<>> \/ (Len(bs) = 1 /\ bs[1][1] = "b")
LitOf(bs)    == IF bs = <<>> THEN <<>> ELSE bs[1][2]

IsSliceChunk(c) == c[1] = "t" /\ c[2][1] = "slice"
\* slice term: <<"slice", chunk, off, n>>  = n bytes at offset off of the (term) chunk `chunk`
SliceOf(chunk, off, n) ==
    IF n = 0 THEN <<>>
    ELSE IF off = 0 /\ n = ChunkLen(chunk) THEN <<chunk>>
    ELSE << <<"t", <<"slice", chunk, off, n>>, n>> >>

\* merge the junction of two normalised strings
JoinChunks(x, y) ==
    IF x[1] = "b" /\ y[1] = "b" THEN << <<"b", x[2] \o y[2]>> >>
    ELSE IF IsSliceChunk(x) /\ IsSliceChunk(y)
            /\ x[2][2] = y[2][2] /\ y[2][3] = x[2][3] + x[2][4]
         THEN SliceOf(x[2][2], x[2][3], x[2][4] + y[2][4])
    ELSE <<x, y>>

Cat(a, b) ==
    IF a = <<>> THEN b
    ELSE IF b = <<>> THEN a
    ELSE SubSeq(a, 1, Len(a) - 1) \o JoinChunks(a[Len(a)], b[1]) \o Tail(b)

RECURSIVE CatAll(_)
CatAll(ss) == IF ss = <<>> THEN <<>> ELSE Cat(Head(ss), CatAll(Tail(ss)))

\* <<left, right>> with BLen(left) = Min(k, BLen(bs))
RECURSIVE SplitAt(_, _)
SplitAt(bs, k) ==
    IF k = 0 THEN << <<>>, bs >>
    ELSE IF bs = <<>> THEN << <<>>, <<>> >>
    ELSE LET c == Head(bs)
             n == ChunkLen(c)
         IN IF k >= n
            THEN LET r == SplitAt(Tail(bs), k - n) IN << <<c>> \o r[1], r[2] >>
            ELSE IF c[1] = "b"
                 THEN << Lit(SubSeq(c[2], 1, k)), Cat(Lit(SubSeq(c[2], k + 1, n)), Tail(bs)) >>
                 ELSE IF IsSliceChunk(c)
                      THEN << SliceOf(c[2][2], c[2][3], k),
                              Cat(SliceOf(c[2][2], c[2][3] + k, n - k), Tail(bs)) >>
                      ELSE << SliceOf(c, 0, k), Cat(SliceOf(c, k, n - k), Tail(bs)) >>

Take(bs, k) == SplitAt(bs, k)[1]
Drop(bs, k) == SplitAt(bs, k)[2]

Zeros(n)   == [i \in 1..n |-> 0]
Fill(b, n) == [i \in 1..n |-> b]

I2OSP1(n) == <<n>>
I2OSP2(n) == <<n \div 256, n % 256>>

\* bytewise xor; concrete when both sides are literal, a term otherwise
XorLit(x, y) == [i \in 1..Len(x) |-> x[i] ^^ y[i]]
BXor(a, b) ==
    IF IsAllLit(a) /\ IsAllLit(b) THEN Lit(XorLit(LitOf(a), LitOf(b)))
    ELSE T(<<"xor", a, b>>, BLen(a))

\* flip bit k (byte k \div 8, bit k % 8 counted from the least significant bit)
Pow2(k) == CASE k = 0 -> 1 [] k = 1 -> 2 [] k = 2 -> 4 [] k = 3 -> 8
             [] k = 4 -> 16 [] k = 5 -> 32 [] k = 6 -> 64 [] k = 7 -> 128
Flip(bs, k) ==
    IF IsAllLit(bs)
    THEN Lit([LitOf(bs) EXCEPT ![(k \div 8) + 1] = @ ^^ Pow2(k % 8)])
    ELSE T(<<"flip", bs, k>>, BLen(bs))

(***************************************************************************)
(* 64-bit counters are 8-byte big-endian tuples (TLC integers are 32 bit). *)
(***************************************************************************)
Seq0   == Zeros(8)
SeqMax == Fill(255, 8)

RECURSIVE IncAt(_, _)
IncAt(s, i) ==           \* ripple-carry increment of byte i (1-based, from the right end)
    IF i = 0 THEN s      \* wrapped (callers never ask for SeqMax + 1)
    ELSE IF s[i] = 255 THEN IncAt([s EXCEPT ![i] = 0], i - 1)
    ELSE [s EXCEPT ![i] = @ + 1]
ByteInc(s) == IncAt(s, Len(s))

RECURSIVE LexLeqFrom(_, _, _)
LexLeqFrom(a, b, i) ==
    IF i > Len(a) THEN TRUE
    ELSE IF a[i] < b[i] THEN TRUE
    ELSE IF a[i] > b[i] THEN FALSE
    ELSE LexLeqFrom(a, b, i + 1)
ByteLeq(a, b) == LexLeqFrom(a, b, 1)
ByteLt(a, b)  == a # b /\ ByteLeq(a, b)

\* small counters as numbers (only for counters known to be < 2^24)
SmallSeq(n) == <<0, 0, 0, 0, 0, (n \div 65536) % 256, (n \div 256) % 256, n % 256>>
=============================================================================
