--------------------------- MODULE HpkeLifecycle ---------------------------
(***************************************************************************)
(* Life cycle of the secret-holding buffers (C16), as a TRACE              *)
(* specification: the executor's log of setups, uses and drops - each      *)
(* event carrying the drop-ledger delta of the call (per buffer kind:      *)
(* drops, drops that left non-zero bytes) and, for drops, whether the      *)
(* secrets were found in the object's memory before and after - is         *)
(* accepted iff every event is a step the specification allows.            *)
(*                                                                         *)
(* Buffer kinds (ledger order): 1 AEAD nonce, 2 AEAD key, 3 exporter       *)
(* secret, 4 KEM shared secret.                                            *)
(* What the specification demands - and nothing more:                      *)
(*   - no buffer of any kind is ever dropped dirty;                        *)
(*   - a successful setup drops (clean) the temporary AEAD key and the KEM *)
(*     shared secret before it returns;                                    *)
(*   - dropping a context drops its base nonce and exporter secret, and    *)
(*     dropping a shared secret drops it: whatever was found in the memory *)
(*     before the drop is not found after it.                              *)
(* Counts are lower bounds only (temporaries may come and go).             *)
(***************************************************************************)
EXTENDS Naturals, Sequences, TLC, Json, IOUtils

VARIABLES live,    \* names of the contexts that exist
          n        \* next trace line

Tr == ndJsonDeserialize(IOEnv.LIFE_TRACE)
Ev == Tr[n]

K_NONCE == 1
K_KEY == 2
K_EXP == 3
K_SS == 4
Drops(d, k) == d[k][1]
Dirty(d, k) == d[k][2]
Clean(d) == \A k \in 1..4 : Dirty(d, k) = 0

Consume == n <= Len(Tr) /\ n' = n + 1

\* whatever the scan found before the drop is gone after it
Wiped(scan) == \A i \in 1..Len(scan) : scan[i].before => ~scan[i].after

SetupOk ==
    /\ Consume /\ Ev.ev \in {"setup_s", "setup_r"} /\ Ev.result = "ok"
    /\ Clean(Ev.delta)
    /\ Drops(Ev.delta, K_KEY) >= 1          \* the key schedule's temporary AEAD key, wiped before return
    /\ Drops(Ev.delta, K_SS) >= 1           \* the KEM shared secret
    /\ live' = live \cup {Ev.ctx}
SetupFail ==
    /\ Consume /\ Ev.ev \in {"setup_s", "setup_r"} /\ Ev.result = "err"
    /\ Clean(Ev.delta)
    /\ UNCHANGED live
HookRawCtx ==
    /\ Consume /\ Ev.ev = "raw_ctx" /\ Ev.result = "ok"
    /\ Clean(Ev.delta)
    /\ live' = live \cup {Ev.ctx}
Use ==
    /\ Consume /\ Ev.ev \in {"seal", "open", "export"}
    /\ Ev.ctx \in live
    /\ Clean(Ev.delta)
    /\ UNCHANGED live
DropCtx ==
    /\ Consume /\ Ev.ev = "drop"
    /\ Ev.ctx \in live
    /\ Clean(Ev.delta)
    /\ Drops(Ev.delta, K_NONCE) >= 1 /\ Drops(Ev.delta, K_EXP) >= 1
    /\ Wiped(Ev.scan)
    /\ live' = live \ {Ev.ctx}
DropSharedSecret ==
    /\ Consume /\ Ev.ev = "drop_shared_secret" /\ Ev.result = "ok"
    /\ Clean(Ev.delta)
    /\ Drops(Ev.delta, K_SS) >= 1
    /\ Wiped(Ev.scan)
    /\ UNCHANGED live
\* key generation, (de)serialisation, encap/decap: no context involved, nothing may be dropped dirty
Other ==
    /\ Consume /\ Ev.ev = "other"
    /\ Clean(Ev.delta)
    /\ UNCHANGED live

Init == live = {} /\ n = 1
Next == SetupOk \/ SetupFail \/ HookRawCtx \/ Use \/ DropCtx \/ DropSharedSecret \/ Other
Spec == Init /\ [][Next]_<<live, n>>

\* a context that exists was set up and not yet dropped
TypeOK == n \in 1..(Len(Tr) + 1)

Accepted ==
    LET d == TLCGet("stats").diameter
    IN IF d = Len(Tr) + 1 THEN TRUE
       ELSE PrintT(ToJson([rejected_at |-> d, event |-> Tr[d]])) /\ FALSE
=============================================================================
