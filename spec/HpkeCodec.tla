----------------------------- MODULE HpkeCodec -----------------------------
(***************************************************************************)
(* (De)serialisation (RFC 9180 section 7.1.1 / 7.1.2 and the library's     *)
(* Serializable / Deserializable contract) as decision tables, and the PSK *)
(* bundle rule of section 5.1.                                             *)
(***************************************************************************)
EXTENDS HpkeSchedule

\* sizes: RFC 9180 tables 2 and 5
SizeOf(ty, alg) == CASE ty = "pk" -> Npk(alg) [] ty = "enc" -> Nenc(alg) [] ty = "sk" -> Nsk(alg)
                     [] ty = "tag" -> Nt(alg)

E_LEN == "IncorrectInputLength"
E_VAL == "ValidationError"

(***************************************************************************)
(* NIST public / encapsulated keys: accepted exactly for                   *)
(*   0x04 || X || Y, fixed length, X < p, Y < p, (X, Y) on the curve       *)
(* (such a point is never the identity).  The three arithmetic facts are   *)
(* inputs of the table; the oracle establishes them for each test input.   *)
(***************************************************************************)
DeserNistPk(kem, len, tagByte, xInRange, yInRange, onCurve) ==
    IF len # Npk(kem) THEN [kind |-> "err", err |-> E_LEN, payload |-> <<Npk(kem), len>>]
    ELSE IF tagByte = 4 /\ xInRange /\ yInRange /\ onCurve THEN [kind |-> "ok", err |-> "", payload |-> <<>>]
    ELSE [kind |-> "err", err |-> E_VAL, payload |-> <<>>]

\* NIST private keys: fixed-length big-endian scalars in [1, n-1]
DeserNistSk(kem, len, inRange) ==
    IF len # Nsk(kem) THEN [kind |-> "err", err |-> E_LEN, payload |-> <<Nsk(kem), len>>]
    ELSE IF inRange THEN [kind |-> "ok", err |-> "", payload |-> <<>>]
    ELSE [kind |-> "err", err |-> E_VAL, payload |-> <<>>]

\* X25519 keys and AEAD tags: any string of the right length
DeserByLen(size, len) ==
    IF len # size THEN [kind |-> "err", err |-> E_LEN, payload |-> <<size, len>>]
    ELSE [kind |-> "ok", err |-> "", payload |-> <<>>]

\* writing into a caller buffer panics exactly when its length differs from the serialised size
WriteExactKind(size, buflen) == IF buflen = size THEN "ok" ELSE "panic"

\* section 5.1: psk and psk_id appear together or not at all
PskBundleNew(psk, pskId) ==
    IF PskBundleOk(psk, pskId) THEN [kind |-> "ok", err |-> ""] ELSE [kind |-> "err", err |-> "InvalidPskBundle"]
=============================================================================
