------------------------------- MODULE MC_Par -------------------------------
(***************************************************************************)
(* Bounded instance for C18 (no hidden state, also across threads): three  *)
(* independent sessions                                                    *)
(*     A: sender sA / receiver rA                                          *)
(*     B: ANOTHER recipient key pair and ANOTHER RNG script, everything    *)
(*        else (info, PSK, sender identity key) as in A (sB / rB)          *)
(*     C: same parameters and the SAME RNG script as A (sC)                *)
(* whose calls TLC interleaves in every order, each call placed on one of  *)
(* T threads.  The specification has no notion of thread or of "other      *)
(* contexts": each result is a function of the call's arguments and its    *)
(* own context.  So for every schedule the per-session predictions are     *)
(* those of running the session alone: B must differ from A in everything  *)
(* derived from the ephemeral key, C must equal A in everything.           *)
(***************************************************************************)
EXTENDS HpkeProps, Json

CONSTANTS KemC, KdfC, AeadC, ModeC, Threads, HistLen

VARIABLES thr      \* thread placement of every call so far (parallel to hist)

TheSuite == <<KemC, KdfC, AeadC>>
Ikm(name) == Leaf("ikm" \o name, Nsk(KemC))
KP(name)  == DeriveKeyPair(KemC, Ikm(name))
Prologue ==
    [n \in {"R", "R2", "S"} |->
        [op |-> "derive_keypair", c |-> "", form |-> "", plain |-> [kem |-> KemC],
         bytes |-> [ikm |-> Ikm(n)], kind |-> "ok", err |-> "",
         out |-> [sk |-> KP(n).sk, pk |-> KP(n).pk], outn |-> EmptyF,
         pre |-> NoState, post |-> NoState, untouched |-> FALSE]]

SP(rngName) ==
    [suite |-> TheSuite, mode |-> ModeC, pkR |-> KP(IF rngName = "2" THEN "R2" ELSE "R").pk, info |-> Leaf("info", 9),
     psk |-> IF ModeC \in PskModes THEN Leaf("psk", 32) ELSE <<>>,
     pskId |-> IF ModeC \in PskModes THEN Leaf("pskid", 5) ELSE <<>>,
     skS |-> IF ModeC \in AuthModes THEN KP("S").sk ELSE <<>>,
     pkS |-> IF ModeC \in AuthModes THEN KP("S").pk ELSE <<>>,
     rng |-> Leaf("rng" \o rngName, Nsk(KemC) + 70)]
RP(sp) ==
    [suite |-> sp.suite, mode |-> sp.mode, skR |-> KP(IF sp.pkR = KP("R2").pk THEN "R2" ELSE "R").sk,
     enc |-> GenKeyPair(KemC, sp.rng).pk,
     info |-> sp.info, psk |-> sp.psk, pskId |-> sp.pskId, pkS |-> sp.pkS]

MC_SetupSMenu(cx) ==
    {m \in {[c |-> "sA", p |-> SP("1")], [c |-> "sB", p |-> SP("2")], [c |-> "sC", p |-> SP("1")]} : m.c \notin DOMAIN cx}
MC_SetupRMenu(cx) ==
    {m \in {[c |-> "rA", p |-> RP(SP("1"))], [c |-> "rB", p |-> RP(SP("2"))]} :
        m.c \notin DOMAIN cx /\ (IF m.c = "rA" THEN "sA" ELSE "sB") \in DOMAIN cx}
MC_PtMenu(n)  == {Leaf("pt" \o ToString(n), 21)}
MC_AadMenu(n) == {Leaf("aad" \o ToString(n), 3)}
\* every receiver is offered the messages of every sender (A's receiver must refuse B's, accept C's)
MC_DeliveryMenu(snt) ==
    UNION {{[k |-> "msg", s |-> c, i |-> i, j |-> 0, n |-> 0] : i \in 1..Len(snt[c])} : c \in DOMAIN snt}
MC_ExportMenu == {<<Leaf("ectx", 4), 32>>}
NoMenu(x) == {}
NoMenu2(x, y) == {}

ParInit == Init /\ thr = <<>>
ParNext == \E t \in Threads : Next /\ thr' = Append(thr, t)

\* sessions never influence each other: a call changes at most its own context
Frame == [][\A c \in DOMAIN ctx : (c \in DOMAIN ctx' /\ last'.c # c) => ctx'[c] = ctx[c]]_<<vars, thr>>
\* same parameters + same randomness = same key material; other randomness = nothing shared
Determinism ==
    /\ ({"sA", "sC"} \subseteq DOMAIN ctx) => KeyMat("sA") = KeyMat("sC")
    /\ ({"sA", "sB"} \subseteq DOMAIN ctx) => ~SharesAny("sA", "sB")

ParView == <<CoreView, thr>>
PrintHist == (Len(hist) = HistLen) =>
    PrintT(ToJson([pro |-> Prologue, hist |-> hist, threads |-> thr]))
=============================================================================
