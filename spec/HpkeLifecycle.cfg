SPECIFICATION Spec
INVARIANT TypeOK
POSTCONDITION Accepted
CHECK_DEADLOCK FALSE
