SPECIFICATION TraceSpec
CONSTANTS
  SetupSMenu <- NoMenu
  SetupRMenu <- NoMenu
  RawMenu = {}
  SeqMenu = {}
  PtMenu <- NoMenu
  AadMenu <- NoMenu
  FormMenu = {"alloc", "detached"}
  DeliveryMenu <- NoMenu
  ExportMenu = {}
  ShotSMenu <- NoMenu2
  ShotRMenu <- NoMenu2
  MaxSeals = 100000
  MaxOpens = 100000
  MaxExports = 100000
  MaxSetSeq = 100000
  MaxShots = 100000
  OvfFirstInOpen = TRUE
  HugeSeals = FALSE
  RecordHist = FALSE
INVARIANTS
  Agrees TraceStateProps
ACTION_CONSTRAINT CheckLast
CHECK_DEADLOCK FALSE
