----------------------------- MODULE HpkeSuites -----------------------------
(***************************************************************************)
(* RFC 9180 section 7, tables 2, 3 and 5: algorithm identifiers and sizes. *)
(* KEMs, KDFs and AEADs are named by their RFC 9180 code points.           *)
(***************************************************************************)
EXTENDS Naturals, Sequences

KEM_X25519 == 32        \* 0x0020 DHKEM(X25519, HKDF-SHA256)
KEM_P256   == 16        \* 0x0010 DHKEM(P-256, HKDF-SHA256)
KEM_P384   == 17        \* 0x0011 DHKEM(P-384, HKDF-SHA384)
KEM_P521   == 18        \* 0x0012 DHKEM(P-521, HKDF-SHA512)
Kems       == {KEM_X25519, KEM_P256, KEM_P384, KEM_P521}
NistKems   == {KEM_P256, KEM_P384, KEM_P521}

KDF_SHA256 == 1
KDF_SHA384 == 2
KDF_SHA512 == 3
Kdfs       == {KDF_SHA256, KDF_SHA384, KDF_SHA512}

AEAD_AES128 == 1
AEAD_AES256 == 2
AEAD_CHACHA == 3
AEAD_EXPORT == 65535    \* 0xFFFF export-only
SealAeads   == {AEAD_AES128, AEAD_AES256, AEAD_CHACHA}
Aeads       == SealAeads \cup {AEAD_EXPORT}

AllSuites  == Kems \X Kdfs \X Aeads          \* 48
SealSuites == Kems \X Kdfs \X SealAeads      \* 36

\* hash function names are the ones the primitive oracle understands
KdfHash(kdf) == CASE kdf = KDF_SHA256 -> "sha256" [] kdf = KDF_SHA384 -> "sha384"
                  [] kdf = KDF_SHA512 -> "sha512"
Nh(hash)     == CASE hash = "sha256" -> 32 [] hash = "sha384" -> 48 [] hash = "sha512" -> 64

KemHash(kem) == CASE kem = KEM_X25519 -> "sha256" [] kem = KEM_P256 -> "sha256"
                  [] kem = KEM_P384 -> "sha384" [] kem = KEM_P521 -> "sha512"
Nsecret(kem) == Nh(KemHash(kem))
Npk(kem)     == CASE kem = KEM_X25519 -> 32 [] kem = KEM_P256 -> 65
                  [] kem = KEM_P384 -> 97 [] kem = KEM_P521 -> 133
Nenc(kem)    == Npk(kem)
Nsk(kem)     == CASE kem = KEM_X25519 -> 32 [] kem = KEM_P256 -> 32
                  [] kem = KEM_P384 -> 48 [] kem = KEM_P521 -> 66
Ndh(kem)     == Nsk(kem)
\* RFC 9180 section 7.1.3: bitmask applied to the first candidate byte
KeygenBitmask(kem) == CASE kem = KEM_P256 -> 255 [] kem = KEM_P384 -> 255 [] kem = KEM_P521 -> 1

Nk(aead) == CASE aead = AEAD_AES128 -> 16 [] aead = AEAD_AES256 -> 32
              [] aead = AEAD_CHACHA -> 32 [] aead = AEAD_EXPORT -> 0
Nn(aead) == IF aead = AEAD_EXPORT THEN 0 ELSE 12
Nt(aead) == IF aead = AEAD_EXPORT THEN 0 ELSE 16

MODE_BASE     == 0
MODE_PSK      == 1
MODE_AUTH     == 2
MODE_AUTH_PSK == 3
Modes     == {MODE_BASE, MODE_PSK, MODE_AUTH, MODE_AUTH_PSK}
AuthModes == {MODE_AUTH, MODE_AUTH_PSK}
PskModes  == {MODE_PSK, MODE_AUTH_PSK}
=============================================================================
