"""Textbook cryptographic primitives in pure Python (stdlib only).

This module is an *independent reference* ("oracle"): every primitive is
written straight from its specification, with no protocol-specific logic.

    HKDF                 RFC 5869 (HMAC from the stdlib over hashlib)
    X25519               RFC 7748 (Montgomery ladder)
    P-256/P-384/P-521    FIPS 186-4 / SEC 2 short Weierstrass curves, a = -3
    AES-128/256-GCM      FIPS 197 + NIST SP 800-38D (96-bit nonces only)
    ChaCha20-Poly1305    RFC 8439

All byte-string values are `bytes`.  Nothing here is constant time; it must
never be used to protect real data.
"""

import functools
import hashlib
import hmac as _hmac
import struct

__all__ = [
    "HASH_LEN", "hkdf_extract", "hkdf_expand",
    "x25519", "x25519_base", "x25519_clamp", "X25519_SMALL_ORDER_U", "X25519_P",
    "CURVES", "Curve", "nist_scalar_mult", "nist_pk", "nist_dh", "nist_sk_valid",
    "nist_classify_pk", "nist_on_curve", "nist_lift_x", "nist_random_point",
    "nist_twist_x", "nist_point_other_b", "sec1_uncompressed", "sec1_compressed",
    "AEAD_NK", "AEAD_NN", "AEAD_NT", "aead_seal", "aead_open",
]

# ---------------------------------------------------------------------------
# 1. HKDF (RFC 5869)
# ---------------------------------------------------------------------------

HASH_LEN = {"sha256": 32, "sha384": 48, "sha512": 64}

_HASH_FN = {"sha256": hashlib.sha256, "sha384": hashlib.sha384, "sha512": hashlib.sha512}


def _hash_fn(hash):
    try:
        return _HASH_FN[hash]
    except KeyError:
        raise ValueError("unknown hash %r" % (hash,)) from None


def hkdf_extract(hash, salt, ikm):
    """PRK = HMAC-Hash(salt, IKM).  An empty salt means HashLen zero bytes."""
    fn = _hash_fn(hash)
    if len(salt) == 0:
        salt = bytes(HASH_LEN[hash])
    return _hmac.new(bytes(salt), bytes(ikm), fn).digest()


def hkdf_expand(hash, prk, info, L):
    """OKM = first L bytes of T(1) | T(2) | ..., T(i) = HMAC(PRK, T(i-1) | info | i)."""
    fn = _hash_fn(hash)
    hlen = HASH_LEN[hash]
    if L < 0 or L > 255 * hlen:
        raise ValueError("hkdf_expand: L=%d out of range (max %d)" % (L, 255 * hlen))
    prk = bytes(prk)
    info = bytes(info)
    base = _hmac.new(prk, None, fn)      # keyed once; copied for every block
    out = []
    t = b""
    n = (L + hlen - 1) // hlen
    for i in range(1, n + 1):
        h = base.copy()
        h.update(t)
        h.update(info)
        h.update(bytes((i,)))
        t = h.digest()
        out.append(t)
    return b"".join(out)[:L]


# ---------------------------------------------------------------------------
# 2. X25519 (RFC 7748)
# ---------------------------------------------------------------------------

X25519_P = (1 << 255) - 19
_X25519_A24 = 121665
_MASK255 = (1 << 255) - 1

# The u-coordinates (as integers < 2^255, i.e. every 255-bit *encoding*) for
# which X25519 returns all-zero for every scalar: the x-coordinates of the
# points of order 1,2,4,8 on the curve and on its twist, plus the non-canonical
# representatives p = 0 and p+1 = 1.  (Verified by computation in selftest.py.)
X25519_SMALL_ORDER_U = [
    0,
    1,
    X25519_P - 1,
    X25519_P,
    X25519_P + 1,
    int.from_bytes(bytes.fromhex(
        "e0eb7a7c3b41b8ae1656e3faf19fc46ada098deb9c32b1fd866205165f49b800"), "little"),
    int.from_bytes(bytes.fromhex(
        "5f9c95bca3508c24b1d0b1559c83ef5b04445cc4581c8e86d8224eddd09f1157"), "little"),
]


def x25519_clamp(k):
    """RFC 7748 decodeScalar25519 clamping, returned as 32 bytes."""
    if len(k) != 32:
        raise ValueError("x25519 scalar must be 32 bytes")
    b = bytearray(k)
    b[0] &= 248
    b[31] &= 127
    b[31] |= 64
    return bytes(b)


def x25519(k, u):
    """X25519(k, u) per RFC 7748 section 5.

    k is clamped; bit 255 of u is masked; non-canonical u is reduced mod p (not
    rejected).  Returns 32 bytes little-endian; all-zero for small-order u.
    """
    if len(u) != 32:
        raise ValueError("x25519 u-coordinate must be 32 bytes")
    p = X25519_P
    a24 = _X25519_A24
    kn = int.from_bytes(x25519_clamp(k), "little")
    x1 = (int.from_bytes(u, "little") & _MASK255) % p
    x2, z2, x3, z3 = 1, 0, x1, 1
    swap = 0
    for t in range(254, -1, -1):
        kt = (kn >> t) & 1
        swap ^= kt
        if swap:
            x2, x3 = x3, x2
            z2, z3 = z3, z2
        swap = kt
        A = x2 + z2
        AA = A * A % p
        B = x2 - z2
        BB = B * B % p
        E = AA - BB
        C = x3 + z3
        D = x3 - z3
        DA = D * A % p
        CB = C * B % p
        t0 = DA + CB
        x3 = t0 * t0 % p
        t1 = DA - CB
        z3 = x1 * (t1 * t1 % p) % p
        x2 = AA * BB % p
        z2 = E * (AA + a24 * E) % p
    if swap:
        x2, x3 = x3, x2
        z2, z3 = z3, z2
    res = x2 * pow(z2, p - 2, p) % p
    return res.to_bytes(32, "little")


X25519_L = 2 ** 252 + 27742317777372353535851937790883648493        # prime order of the curve's main subgroup
X25519_L_TWIST = (2 * X25519_P + 2 - 8 * X25519_L) // 4               # prime order of the twist's main subgroup


def x25519_ladder(k, u, projective=False):
    """[k]u on the Montgomery u-line for an arbitrary non-negative integer k (no clamping); u an integer mod p.
    Returns the u-coordinate as an integer, 0 for the point at infinity (and for u = 0)."""
    p, a24 = X25519_P, _X25519_A24
    x1 = u % p
    x2, z2, x3, z3 = 1, 0, x1, 1
    for t in range(max(k.bit_length(), 1) - 1, -1, -1):
        kt = (k >> t) & 1
        if kt:
            x2, x3, z2, z3 = x3, x2, z3, z2
        A = x2 + z2
        AA = A * A % p
        B = x2 - z2
        BB = B * B % p
        E = AA - BB
        C = x3 + z3
        D = x3 - z3
        DA = D * A % p
        CB = C * B % p
        x3 = (DA + CB) ** 2 % p
        z3 = x1 * ((DA - CB) ** 2 % p) % p
        x2 = AA * BB % p
        z2 = E * (AA + a24 * E) % p
        if kt:
            x2, x3, z2, z3 = x3, x2, z3, z2
    return (x2 % p, z2 % p) if projective else x2 * pow(z2, p - 2, p) % p


def x25519_subgroup_order(u):
    """the prime order of u if it lies in the main subgroup of the curve or of its twist, else None
    ([order]u must be the point at infinity, Z = 0 - not the 2-torsion point u = 0)"""
    for order in (X25519_L, X25519_L_TWIST):
        if u % X25519_P != 0 and x25519_ladder(order, u, projective=True)[1] == 0:
            return order
    return None


def x25519_preimage(k, target_u):
    """a u-coordinate P with X25519(k, P) = target_u (k: 32 bytes, clamped as the function does); target_u must lie
    in a prime-order subgroup (x25519_subgroup_order)"""
    order = x25519_subgroup_order(target_u)
    if order is None:
        raise ValueError("target is not in a prime-order subgroup")
    kn = int.from_bytes(x25519_clamp(k), "little")
    inv = pow(kn % order, -1, order)
    pre = x25519_ladder(inv, target_u)
    out = pre.to_bytes(32, "little")
    assert x25519(k, out) == (target_u % X25519_P).to_bytes(32, "little")
    return out


_X25519_BASE_U = (9).to_bytes(32, "little")


def x25519_base(k):
    """X25519(k, 9): the public key of scalar k."""
    return x25519(k, _X25519_BASE_U)


# ---------------------------------------------------------------------------
# 3. NIST P-256 / P-384 / P-521
# ---------------------------------------------------------------------------

class Curve:
    """Short Weierstrass curve y^2 = x^3 + a*x + b over GF(p), a = p - 3.

    Attributes: name, p, a, b, n, Gx, Gy, coord_len, sk_len, pk_len.
    Fields can also be read dict-style: CURVES["p256"]["p"].
    """
    __slots__ = ("name", "p", "a", "b", "n", "Gx", "Gy", "coord_len", "sk_len", "pk_len")

    def __init__(self, name, p, b, n, Gx, Gy, coord_len):
        self.name = name
        self.p = p
        self.a = p - 3
        self.b = b
        self.n = n
        self.Gx = Gx
        self.Gy = Gy
        self.coord_len = coord_len
        self.sk_len = coord_len
        self.pk_len = 1 + 2 * coord_len

    def __getitem__(self, key):
        if key in self.__slots__:
            return getattr(self, key)
        raise KeyError(key)

    def keys(self):
        return list(self.__slots__)

    def __repr__(self):
        return "Curve(%s)" % self.name


CURVES = {
    "p256": Curve(
        "p256",
        p=2**256 - 2**224 + 2**192 + 2**96 - 1,
        b=0x5ac635d8aa3a93e7b3ebbd55769886bc651d06b0cc53b0f63bce3c3e27d2604b,
        n=0xffffffff00000000ffffffffffffffffbce6faada7179e84f3b9cac2fc632551,
        Gx=0x6b17d1f2e12c4247f8bce6e563a440f277037d812deb33a0f4a13945d898c296,
        Gy=0x4fe342e2fe1a7f9b8ee7eb4a7c0f9e162bce33576b315ececbb6406837bf51f5,
        coord_len=32),
    "p384": Curve(
        "p384",
        p=2**384 - 2**128 - 2**96 + 2**32 - 1,
        b=0xb3312fa7e23ee7e4988e056be3f82d19181d9c6efe8141120314088f5013875ac656398d8a2ed19d2a85c8edd3ec2aef,
        n=0xffffffffffffffffffffffffffffffffffffffffffffffffc7634d81f4372ddf581a0db248b0a77aecec196accc52973,
        Gx=0xaa87ca22be8b05378eb1c71ef320ad746e1d3b628ba79b9859f741e082542a385502f25dbf55296c3a545e3872760ab7,
        Gy=0x3617de4a96262c6f5d9e98bf9292dc29f8f41dbd289a147ce9da3113b5f0b8c00a60b1ce1d7e819d7a431d7c90ea0e5f,
        coord_len=48),
    "p521": Curve(
        "p521",
        p=2**521 - 1,
        b=0x0051953eb9618e1c9a1f929a21a0b68540eea2da725b99b315f3b8b489918ef109e156193951ec7e937b1652c0bd3bb1bf073573df883d2c34f1ef451fd46b503f00,
        # n = 0x01 || 65 hex 'f' || 'a' || 64 more digits (521 bits).  Written
        # with an explicit repeat count because a run of identical digits is
        # easy to mistype; selftest.py proves this value (prime, n*G = infinity,
        # within the Hasse interval), which determines it uniquely.
        n=int("01" + "f" * 65 +
              "a51868783bf2f966b7fcc0148f709a5d03bb5c9b8899c47aebb6fb71e91386409", 16),
        Gx=0x00c6858e06b70404e9cd9e3ecb662395b4429c648139053fb521f828af606b4d3dbaa14b5e77efe75928fe1dc127a2ffa8de3348b3c1856a429bf97e7e31c2e5bd66,
        Gy=0x011839296a789a3bc0045c8a5fb42c7d1bd998f54449579b446817afbd17273e662c97ee72995ef42640c550b9013fad0761353c7086a272c24088be94769fd16650,
        coord_len=66),
}


def _curve(curve):
    if isinstance(curve, Curve):
        return curve
    try:
        return CURVES[curve]
    except KeyError:
        raise ValueError("unknown curve %r" % (curve,)) from None


# Jacobian coordinates: (X, Y, Z) represents (X/Z^2, Y/Z^3); Z == 0 is infinity.
# Neither formula uses the coefficient b, so the arithmetic below is equally
# correct on any curve y^2 = x^3 - 3x + b' (this is what makes invalid-curve
# points dangerous, and it lets this module simulate them).

_JINF = (1, 1, 0)


def _jac_double(P, p):
    X1, Y1, Z1 = P
    if Z1 == 0 or Y1 == 0:
        return _JINF                      # infinity, or a point of order 2
    # a = -3:  M = 3*X1^2 + a*Z1^4 = 3*(X1 - Z1^2)*(X1 + Z1^2)
    ZZ = Z1 * Z1 % p
    M = 3 * (X1 - ZZ) * (X1 + ZZ) % p
    YY = Y1 * Y1 % p
    S = 4 * X1 * YY % p
    X3 = (M * M - 2 * S) % p
    Y3 = (M * (S - X3) - 8 * YY * YY) % p
    Z3 = 2 * Y1 * Z1 % p
    return (X3, Y3, Z3)


def _jac_add(P, Q, p):
    X1, Y1, Z1 = P
    X2, Y2, Z2 = Q
    if Z1 == 0:
        return Q
    if Z2 == 0:
        return P
    Z1Z1 = Z1 * Z1 % p
    Z2Z2 = Z2 * Z2 % p
    U1 = X1 * Z2Z2 % p
    U2 = X2 * Z1Z1 % p
    S1 = Y1 * Z2 * Z2Z2 % p
    S2 = Y2 * Z1 * Z1Z1 % p
    H = (U2 - U1) % p
    R = (S2 - S1) % p
    if H == 0:
        if R == 0:
            return _jac_double(P, p)      # P == Q
        return _JINF                      # P == -Q
    HH = H * H % p
    HHH = H * HH % p
    V = U1 * HH % p
    X3 = (R * R - HHH - 2 * V) % p
    Y3 = (R * (V - X3) - S1 * HHH) % p
    Z3 = H * Z1 * Z2 % p
    return (X3, Y3, Z3)


def _jac_to_affine(P, p):
    X, Y, Z = P
    if Z == 0:
        return None
    zi = pow(Z, -1, p)
    zi2 = zi * zi % p
    return (X * zi2 % p, Y * zi2 * zi % p)


def nist_scalar_mult(curve, k, point):
    """k * point; point is (x, y) or None (infinity); returns (x, y) or None.

    Correct for every k >= 0 (k is NOT reduced mod n) and for every point that
    satisfies y^2 = x^3 - 3x + b' for some b' (in particular the real curve).
    """
    c = _curve(curve)
    p = c.p
    if k < 0:
        raise ValueError("nist_scalar_mult: negative scalar")
    if point is None or k == 0:
        return None
    x, y = point
    P1 = (x % p, y % p, 1)
    # Fixed 4-bit windows, left to right.  _jac_add is complete (it handles
    # doubling, inverses and infinity), so no case analysis is needed here.
    tbl = [_JINF, P1]
    for i in range(2, 16):
        tbl.append(_jac_double(tbl[i // 2], p) if i % 2 == 0 else _jac_add(tbl[i - 1], P1, p))
    nibbles = (k.bit_length() + 3) // 4
    acc = _JINF
    for i in range(nibbles - 1, -1, -1):
        acc = _jac_double(acc, p)
        acc = _jac_double(acc, p)
        acc = _jac_double(acc, p)
        acc = _jac_double(acc, p)
        d = (k >> (4 * i)) & 15
        if d:
            acc = _jac_add(acc, tbl[d], p)
    return _jac_to_affine(acc, p)


def nist_on_curve(curve, x, y):
    """True iff 0 <= x, y < p and y^2 == x^3 + a*x + b (mod p)."""
    c = _curve(curve)
    p = c.p
    if not (0 <= x < p and 0 <= y < p):
        return False
    return (y * y - (x * x * x + c.a * x + c.b)) % p == 0


def nist_lift_x(curve, x):
    """A y with y^2 = x^3 + a*x + b (mod p), or None if there is none."""
    c = _curve(curve)
    p = c.p
    if not 0 <= x < p:
        return None
    v = (x * x * x + c.a * x + c.b) % p
    y = pow(v, (p + 1) // 4, p)           # p = 3 (mod 4) for all three curves
    if y * y % p != v:
        return None
    return y


def nist_sk_valid(curve, b):
    c = _curve(curve)
    if len(b) != c.sk_len:
        return False
    return 1 <= int.from_bytes(b, "big") <= c.n - 1


def nist_classify_pk(curve, b):
    """"len" | "ok" | "invalid" for a candidate uncompressed SEC1 public key."""
    c = _curve(curve)
    if len(b) != c.pk_len:
        return "len"
    if b[0] != 4:
        return "invalid"
    L = c.coord_len
    x = int.from_bytes(b[1:1 + L], "big")
    y = int.from_bytes(b[1 + L:1 + 2 * L], "big")
    if x >= c.p or y >= c.p:
        return "invalid"
    if not nist_on_curve(c, x, y):
        return "invalid"
    return "ok"


def sec1_uncompressed(curve, x, y):
    """0x04 || X || Y, fixed width; x, y >= p are allowed as long as they fit."""
    c = _curve(curve)
    L = c.coord_len
    lim = 1 << (8 * L)
    if not (0 <= x < lim and 0 <= y < lim):
        raise ValueError("sec1_uncompressed: coordinate does not fit in %d bytes" % L)
    return b"\x04" + x.to_bytes(L, "big") + y.to_bytes(L, "big")


def sec1_compressed(curve, x, y):
    """(0x02 | y&1) || X, fixed width."""
    c = _curve(curve)
    L = c.coord_len
    if not (0 <= x < (1 << (8 * L))) or y < 0:
        raise ValueError("sec1_compressed: coordinate does not fit in %d bytes" % L)
    return bytes((2 | (y & 1),)) + x.to_bytes(L, "big")


def nist_pk(curve, sk):
    """Uncompressed SEC1 encoding of sk*G; sk must satisfy nist_sk_valid."""
    c = _curve(curve)
    if not nist_sk_valid(c, sk):
        raise ValueError("nist_pk: invalid private key")
    x, y = nist_scalar_mult(c, int.from_bytes(sk, "big"), (c.Gx, c.Gy))
    return sec1_uncompressed(c, x, y)


def nist_dh(curve, sk, pk):
    """x-coordinate (coord_len bytes, big-endian) of sk * pk."""
    c = _curve(curve)
    if not nist_sk_valid(c, sk):
        raise ValueError("nist_dh: invalid private key")
    if nist_classify_pk(c, pk) != "ok":
        raise ValueError("nist_dh: invalid public key")
    L = c.coord_len
    P = (int.from_bytes(pk[1:1 + L], "big"), int.from_bytes(pk[1 + L:], "big"))
    R = nist_scalar_mult(c, int.from_bytes(sk, "big"), P)
    if R is None:                          # impossible: prime order, 1 <= sk < n
        raise ValueError("nist_dh: result is the point at infinity")
    return R[0].to_bytes(L, "big")


def nist_random_point(curve, rng):
    """A uniformly random non-identity point (random scalar times G)."""
    c = _curve(curve)
    k = rng.randrange(1, c.n)
    return nist_scalar_mult(c, k, (c.Gx, c.Gy))


def nist_twist_x(curve, rng):
    """A random x < p that is NOT the abscissa of any curve point."""
    c = _curve(curve)
    while True:
        x = rng.randrange(c.p)
        if nist_lift_x(c, x) is None:
            return x


def nist_point_other_b(curve, rng):
    """A random (x, y), x, y < p, NOT on the curve: it lies on y^2 = x^3+ax+b', b' != b."""
    c = _curve(curve)
    while True:
        x = rng.randrange(c.p)
        y = rng.randrange(c.p)
        if not nist_on_curve(c, x, y):
            return (x, y)


# ---------------------------------------------------------------------------
# 4. AEADs
# ---------------------------------------------------------------------------

AEAD_NK = {"aes128gcm": 16, "aes256gcm": 32, "chacha20poly1305": 32}
AEAD_NN = 12
AEAD_NT = 16

# ----- AES (FIPS 197), encryption direction only ---------------------------

def _gf8_mul(a, b):
    """Multiplication in GF(2^8) modulo x^8 + x^4 + x^3 + x + 1."""
    r = 0
    while b:
        if b & 1:
            r ^= a
        a <<= 1
        if a & 0x100:
            a ^= 0x11B
        b >>= 1
    return r


def _make_sbox():
    # log/antilog tables for the generator 0x03 of GF(2^8)*
    exp = [0] * 255
    log = [0] * 256
    v = 1
    for i in range(255):
        exp[i] = v
        log[v] = i
        v = _gf8_mul(v, 3)
    assert v == 1 and len(set(exp)) == 255          # 0x03 has order 255
    sbox = []
    for x in range(256):
        # multiplicative inverse (0 maps to 0)
        inv = exp[(255 - log[x]) % 255] if x else 0
        # affine transformation (FIPS 197 eq. 5.1)
        s = inv
        for sh in (1, 2, 3, 4):
            s ^= ((inv << sh) | (inv >> (8 - sh))) & 0xFF
        sbox.append(s ^ 0x63)
    return sbox


_SBOX = _make_sbox()


def _make_ttables():
    # Column word layout: row0<<24 | row1<<16 | row2<<8 | row3.
    # T0[a] = MixColumns column for (S[a],0,0,0) = (2s, s, s, 3s); T1..T3 rotate.
    t0, t1, t2, t3 = [], [], [], []
    for a in range(256):
        s = _SBOX[a]
        s2 = _gf8_mul(s, 2)
        s3 = _gf8_mul(s, 3)
        t0.append((s2 << 24) | (s << 16) | (s << 8) | s3)
        t1.append((s3 << 24) | (s2 << 16) | (s << 8) | s)
        t2.append((s << 24) | (s3 << 16) | (s2 << 8) | s)
        t3.append((s << 24) | (s << 16) | (s3 << 8) | s2)
    return t0, t1, t2, t3


_T0, _T1, _T2, _T3 = _make_ttables()


def _aes_expand_key(key):
    """FIPS 197 section 5.2 KeyExpansion -> list of 4*(Nr+1) 32-bit words."""
    nk = len(key) // 4
    if len(key) not in (16, 24, 32):
        raise ValueError("bad AES key length")
    nr = nk + 6
    w = list(struct.unpack(">%dI" % nk, key))
    rcon = 1
    S = _SBOX
    for i in range(nk, 4 * (nr + 1)):
        t = w[i - 1]
        if i % nk == 0:
            t = ((t << 8) | (t >> 24)) & 0xFFFFFFFF                     # RotWord
            t = (S[t >> 24] << 24) | (S[(t >> 16) & 255] << 16) | \
                (S[(t >> 8) & 255] << 8) | S[t & 255]                   # SubWord
            t ^= rcon << 24
            rcon = _gf8_mul(rcon, 2)
        elif nk > 6 and i % nk == 4:
            t = (S[t >> 24] << 24) | (S[(t >> 16) & 255] << 16) | \
                (S[(t >> 8) & 255] << 8) | S[t & 255]
        w.append(w[i - nk] ^ t)
    return w


class _AesKey:
    """Expanded AES key: first round key, middle round keys, last round key."""
    __slots__ = ("first", "mid", "last")

    def __init__(self, key):
        w = _aes_expand_key(key)
        rks = [tuple(w[i:i + 4]) for i in range(0, len(w), 4)]
        self.first = rks[0]
        self.mid = tuple(rks[1:-1])
        self.last = rks[-1]


def _aes_encrypt_words(ak, s0, s1, s2, s3,
                       T0=_T0, T1=_T1, T2=_T2, T3=_T3, S=_SBOX):
    """Encrypt one block given as four big-endian column words."""
    k0, k1, k2, k3 = ak.first
    s0 ^= k0
    s1 ^= k1
    s2 ^= k2
    s3 ^= k3
    for k0, k1, k2, k3 in ak.mid:
        t0 = T0[s0 >> 24] ^ T1[(s1 >> 16) & 255] ^ T2[(s2 >> 8) & 255] ^ T3[s3 & 255] ^ k0
        t1 = T0[s1 >> 24] ^ T1[(s2 >> 16) & 255] ^ T2[(s3 >> 8) & 255] ^ T3[s0 & 255] ^ k1
        t2 = T0[s2 >> 24] ^ T1[(s3 >> 16) & 255] ^ T2[(s0 >> 8) & 255] ^ T3[s1 & 255] ^ k2
        s3 = T0[s3 >> 24] ^ T1[(s0 >> 16) & 255] ^ T2[(s1 >> 8) & 255] ^ T3[s2 & 255] ^ k3
        s0 = t0
        s1 = t1
        s2 = t2
    k0, k1, k2, k3 = ak.last
    # final round: SubBytes, ShiftRows, AddRoundKey (no MixColumns)
    o0 = ((S[s0 >> 24] << 24) | (S[(s1 >> 16) & 255] << 16) | (S[(s2 >> 8) & 255] << 8) | S[s3 & 255]) ^ k0
    o1 = ((S[s1 >> 24] << 24) | (S[(s2 >> 16) & 255] << 16) | (S[(s3 >> 8) & 255] << 8) | S[s0 & 255]) ^ k1
    o2 = ((S[s2 >> 24] << 24) | (S[(s3 >> 16) & 255] << 16) | (S[(s0 >> 8) & 255] << 8) | S[s1 & 255]) ^ k2
    o3 = ((S[s3 >> 24] << 24) | (S[(s0 >> 16) & 255] << 16) | (S[(s1 >> 8) & 255] << 8) | S[s2 & 255]) ^ k3
    return o0, o1, o2, o3


def aes_encrypt_block(key, block):
    """AES-128/192/256 encryption of one 16-byte block (FIPS 197 Cipher)."""
    if len(block) != 16:
        raise ValueError("AES block must be 16 bytes")
    ak = _AesKey(key)
    return struct.pack(">4I", *_aes_encrypt_words(ak, *struct.unpack(">4I", block)))


# ----- GHASH / GCM (NIST SP 800-38D) ---------------------------------------
#
# A 16-byte block is read as a big-endian integer; in GCM's bit order the most
# significant bit of that integer is the coefficient of x^0 and the least
# significant bit is the coefficient of x^127.  Multiplying by x is therefore a
# right shift, reducing with R = 11100001 || 0^120 when a bit falls off.

_GCM_R = 0xE1 << 120


def _gcm_mulx(v):
    return (v >> 1) ^ _GCM_R if v & 1 else v >> 1


def _gcm_mult_bitwise(x, y):
    """SP 800-38D algorithm 1 (x * y in GF(2^128)); slow reference."""
    z = 0
    v = y
    for i in range(127, -1, -1):
        if (x >> i) & 1:
            z ^= v
        v = _gcm_mulx(v)
    return z


def _make_gcm_reduce8():
    # _GCM_RED8[b]: the value to fold back in when the low byte b is shifted
    # out by a multiplication by x^8 (b holds the coefficients of x^120..x^127).
    tbl = []
    for b in range(256):
        v = b
        for _ in range(8):
            v = _gcm_mulx(v)
        tbl.append(v)
    return tbl


_GCM_RED8 = _make_gcm_reduce8()

# Total bytes GHASHed under one key after which the 16x256 position tables
# (about 1 ms to build) replace the single 256-entry table (about 50 us).
_GHASH_BIG_THRESHOLD = 8192


class _GcmKey:
    __slots__ = ("ak", "h", "tbl", "big", "seen")

    def __init__(self, key):
        self.ak = _AesKey(key)
        h0, h1, h2, h3 = _aes_encrypt_words(self.ak, 0, 0, 0, 0)
        h = (h0 << 96) | (h1 << 64) | (h2 << 32) | h3
        self.h = h
        # tbl[b] = (b as the polynomial of the *first* byte, x^0..x^7) * H.
        # Bit 0x80 of that byte is x^0, so tbl[0x80] = H, tbl[0x40] = H*x, ...
        tbl = [0] * 256
        v = h
        i = 0x80
        while i:
            tbl[i] = v
            v = _gcm_mulx(v)
            i >>= 1
        i = 2
        while i < 256:
            t = tbl[i]
            for j in range(1, i):
                tbl[i + j] = t ^ tbl[j]
            i <<= 1
        self.tbl = tbl
        self.big = None
        self.seen = 0

    def build_big(self):
        # big[i][b] = (byte b at byte position i) * H = tbl[b] * x^(8*i)
        red = _GCM_RED8
        cur = self.tbl
        big = [cur]
        for _ in range(15):
            cur = [(v >> 8) ^ red[v & 255] for v in cur]
            big.append(cur)
        self.big = big


def _ghash(gk, data):
    """GHASH_H(data); len(data) must be a multiple of 16.  Returns an int."""
    n = len(data)
    gk.seen += n
    if gk.big is None and gk.seen >= _GHASH_BIG_THRESHOLD:
        gk.build_big()
    y = 0
    frm = int.from_bytes
    if gk.big is not None:
        (m0, m1, m2, m3, m4, m5, m6, m7, m8, m9, m10, m11, m12, m13, m14, m15) = gk.big
        for i in range(0, n, 16):
            b = (y ^ frm(data[i:i + 16], "big")).to_bytes(16, "big")
            y = (m0[b[0]] ^ m1[b[1]] ^ m2[b[2]] ^ m3[b[3]] ^ m4[b[4]] ^ m5[b[5]]
                 ^ m6[b[6]] ^ m7[b[7]] ^ m8[b[8]] ^ m9[b[9]] ^ m10[b[10]] ^ m11[b[11]]
                 ^ m12[b[12]] ^ m13[b[13]] ^ m14[b[14]] ^ m15[b[15]])
        return y
    tbl = gk.tbl
    red = _GCM_RED8
    for i in range(0, n, 16):
        # Horner over the 16 bytes, last byte (highest powers of x) first:
        # z = (...((T[b15])*x^8 + T[b14])*x^8 + ...)*x^8 + T[b0]
        z = 0
        for c in reversed((y ^ frm(data[i:i + 16], "big")).to_bytes(16, "big")):
            z = (z >> 8) ^ red[z & 255] ^ tbl[c]
        y = z
    return y


@functools.lru_cache(maxsize=4096)
def _gcm_key(key):
    return _GcmKey(key)


def _pad16(b):
    r = len(b) % 16
    return bytes(16 - r) if r else b""


def _xor_bytes(a, b):
    n = len(a)
    if n == 0:
        return b""
    return (int.from_bytes(a, "big") ^ int.from_bytes(b[:n], "big")).to_bytes(n, "big")


def _gcm_ctr_keystream(gk, n0, n1, n2, ctr, nblocks):
    ak = gk.ak
    enc = _aes_encrypt_words
    out = []
    ext = out.extend
    for _ in range(nblocks):
        ext(enc(ak, n0, n1, n2, ctr))
        ctr = (ctr + 1) & 0xFFFFFFFF       # inc32
    return struct.pack(">%dI" % len(out), *out)


def _gcm_tag(gk, n0, n1, n2, aad, ct):
    s = _ghash(gk, b"".join((aad, _pad16(aad), ct, _pad16(ct),
                             struct.pack(">QQ", 8 * len(aad), 8 * len(ct)))))
    e0, e1, e2, e3 = _aes_encrypt_words(gk.ak, n0, n1, n2, 1)      # E_K(J0)
    return (s ^ ((e0 << 96) | (e1 << 64) | (e2 << 32) | e3)).to_bytes(16, "big")


def _gcm_seal(key, nonce, aad, pt):
    gk = _gcm_key(key)
    n0, n1, n2 = struct.unpack(">3I", nonce)
    # J0 = nonce || 0^31 || 1; the data counter starts at inc32(J0) = ...2
    ks = _gcm_ctr_keystream(gk, n0, n1, n2, 2, (len(pt) + 15) // 16)
    ct = _xor_bytes(pt, ks)
    return ct + _gcm_tag(gk, n0, n1, n2, aad, ct)


def _gcm_open(key, nonce, aad, data):
    if len(data) < 16:
        return None
    gk = _gcm_key(key)
    n0, n1, n2 = struct.unpack(">3I", nonce)
    ct, tag = data[:-16], data[-16:]
    if _gcm_tag(gk, n0, n1, n2, aad, ct) != tag:
        return None
    ks = _gcm_ctr_keystream(gk, n0, n1, n2, 2, (len(ct) + 15) // 16)
    return _xor_bytes(ct, ks)


# ----- ChaCha20-Poly1305 (RFC 8439) ----------------------------------------

def _chacha20_blocks(key, counter, nonce, nblocks):
    """Concatenated ChaCha20 blocks for counters counter .. counter+nblocks-1."""
    if counter + nblocks > 1 << 32:
        raise ValueError("chacha20 block counter overflow")
    M = 0xFFFFFFFF
    c0, c1, c2, c3 = 0x61707865, 0x3320646E, 0x79622D32, 0x6B206574
    k0, k1, k2, k3, k4, k5, k6, k7 = struct.unpack("<8I", key)
    n0, n1, n2 = struct.unpack("<3I", nonce)
    out = []
    ext = out.extend
    rounds = range(10)
    for ctr in range(counter, counter + nblocks):
        x0, x1, x2, x3 = c0, c1, c2, c3
        x4, x5, x6, x7 = k0, k1, k2, k3
        x8, x9, x10, x11 = k4, k5, k6, k7
        x12, x13, x14, x15 = ctr, n0, n1, n2
        for _ in rounds:
            # column round: QR(0,4,8,12) QR(1,5,9,13) QR(2,6,10,14) QR(3,7,11,15)
            x0 = (x0 + x4) & M; x12 ^= x0; x12 = ((x12 << 16) & M) | (x12 >> 16)
            x8 = (x8 + x12) & M; x4 ^= x8; x4 = ((x4 << 12) & M) | (x4 >> 20)
            x0 = (x0 + x4) & M; x12 ^= x0; x12 = ((x12 << 8) & M) | (x12 >> 24)
            x8 = (x8 + x12) & M; x4 ^= x8; x4 = ((x4 << 7) & M) | (x4 >> 25)

            x1 = (x1 + x5) & M; x13 ^= x1; x13 = ((x13 << 16) & M) | (x13 >> 16)
            x9 = (x9 + x13) & M; x5 ^= x9; x5 = ((x5 << 12) & M) | (x5 >> 20)
            x1 = (x1 + x5) & M; x13 ^= x1; x13 = ((x13 << 8) & M) | (x13 >> 24)
            x9 = (x9 + x13) & M; x5 ^= x9; x5 = ((x5 << 7) & M) | (x5 >> 25)

            x2 = (x2 + x6) & M; x14 ^= x2; x14 = ((x14 << 16) & M) | (x14 >> 16)
            x10 = (x10 + x14) & M; x6 ^= x10; x6 = ((x6 << 12) & M) | (x6 >> 20)
            x2 = (x2 + x6) & M; x14 ^= x2; x14 = ((x14 << 8) & M) | (x14 >> 24)
            x10 = (x10 + x14) & M; x6 ^= x10; x6 = ((x6 << 7) & M) | (x6 >> 25)

            x3 = (x3 + x7) & M; x15 ^= x3; x15 = ((x15 << 16) & M) | (x15 >> 16)
            x11 = (x11 + x15) & M; x7 ^= x11; x7 = ((x7 << 12) & M) | (x7 >> 20)
            x3 = (x3 + x7) & M; x15 ^= x3; x15 = ((x15 << 8) & M) | (x15 >> 24)
            x11 = (x11 + x15) & M; x7 ^= x11; x7 = ((x7 << 7) & M) | (x7 >> 25)

            # diagonal round: QR(0,5,10,15) QR(1,6,11,12) QR(2,7,8,13) QR(3,4,9,14)
            x0 = (x0 + x5) & M; x15 ^= x0; x15 = ((x15 << 16) & M) | (x15 >> 16)
            x10 = (x10 + x15) & M; x5 ^= x10; x5 = ((x5 << 12) & M) | (x5 >> 20)
            x0 = (x0 + x5) & M; x15 ^= x0; x15 = ((x15 << 8) & M) | (x15 >> 24)
            x10 = (x10 + x15) & M; x5 ^= x10; x5 = ((x5 << 7) & M) | (x5 >> 25)

            x1 = (x1 + x6) & M; x12 ^= x1; x12 = ((x12 << 16) & M) | (x12 >> 16)
            x11 = (x11 + x12) & M; x6 ^= x11; x6 = ((x6 << 12) & M) | (x6 >> 20)
            x1 = (x1 + x6) & M; x12 ^= x1; x12 = ((x12 << 8) & M) | (x12 >> 24)
            x11 = (x11 + x12) & M; x6 ^= x11; x6 = ((x6 << 7) & M) | (x6 >> 25)

            x2 = (x2 + x7) & M; x13 ^= x2; x13 = ((x13 << 16) & M) | (x13 >> 16)
            x8 = (x8 + x13) & M; x7 ^= x8; x7 = ((x7 << 12) & M) | (x7 >> 20)
            x2 = (x2 + x7) & M; x13 ^= x2; x13 = ((x13 << 8) & M) | (x13 >> 24)
            x8 = (x8 + x13) & M; x7 ^= x8; x7 = ((x7 << 7) & M) | (x7 >> 25)

            x3 = (x3 + x4) & M; x14 ^= x3; x14 = ((x14 << 16) & M) | (x14 >> 16)
            x9 = (x9 + x14) & M; x4 ^= x9; x4 = ((x4 << 12) & M) | (x4 >> 20)
            x3 = (x3 + x4) & M; x14 ^= x3; x14 = ((x14 << 8) & M) | (x14 >> 24)
            x9 = (x9 + x14) & M; x4 ^= x9; x4 = ((x4 << 7) & M) | (x4 >> 25)
        ext(((x0 + c0) & M, (x1 + c1) & M, (x2 + c2) & M, (x3 + c3) & M,
             (x4 + k0) & M, (x5 + k1) & M, (x6 + k2) & M, (x7 + k3) & M,
             (x8 + k4) & M, (x9 + k5) & M, (x10 + k6) & M, (x11 + k7) & M,
             (x12 + ctr) & M, (x13 + n0) & M, (x14 + n1) & M, (x15 + n2) & M))
    return struct.pack("<%dI" % len(out), *out)


_POLY1305_P = (1 << 130) - 5


def _poly1305(key32, msg):
    """Poly1305 one-time MAC (RFC 8439 section 2.5)."""
    r = int.from_bytes(key32[:16], "little") & 0x0FFFFFFC0FFFFFFC0FFFFFFC0FFFFFFF
    s = int.from_bytes(key32[16:32], "little")
    P = _POLY1305_P
    acc = 0
    frm = int.from_bytes
    n = len(msg)
    full = n - (n % 16)
    hibit = 1 << 128
    for i in range(0, full, 16):
        acc = (acc + frm(msg[i:i + 16], "little") + hibit) * r % P
    if full != n:
        acc = (acc + frm(msg[full:] + b"\x01", "little")) * r % P
    return ((acc + s) & ((1 << 128) - 1)).to_bytes(16, "little")


def _ccp_tag(otk, aad, ct):
    return _poly1305(otk, b"".join((aad, _pad16(aad), ct, _pad16(ct),
                                    struct.pack("<QQ", len(aad), len(ct)))))


def _ccp_seal(key, nonce, aad, pt):
    # block 0 -> one-time Poly1305 key (first 32 bytes); blocks 1.. -> keystream
    ks = _chacha20_blocks(key, 0, nonce, 1 + (len(pt) + 63) // 64)
    ct = _xor_bytes(pt, ks[64:])
    return ct + _ccp_tag(ks[:32], aad, ct)


def _ccp_open(key, nonce, aad, data):
    if len(data) < 16:
        return None
    ct, tag = data[:-16], data[-16:]
    otk = _chacha20_blocks(key, 0, nonce, 1)[:32]
    if _ccp_tag(otk, aad, ct) != tag:
        return None
    ks = _chacha20_blocks(key, 1, nonce, (len(ct) + 63) // 64)
    return _xor_bytes(ct, ks)


# ----- public AEAD interface -------------------------------------------------

def _aead_check(aead, key, nonce):
    try:
        nk = AEAD_NK[aead]
    except KeyError:
        raise ValueError("unknown aead %r" % (aead,)) from None
    if len(key) != nk:
        raise ValueError("%s: key must be %d bytes, got %d" % (aead, nk, len(key)))
    if len(nonce) != AEAD_NN:
        raise ValueError("%s: nonce must be %d bytes, got %d" % (aead, AEAD_NN, len(nonce)))


def aead_seal(aead, key, nonce, aad, pt):
    """ciphertext || 16-byte tag."""
    _aead_check(aead, key, nonce)
    key, nonce, aad, pt = bytes(key), bytes(nonce), bytes(aad), bytes(pt)
    if aead == "chacha20poly1305":
        return _ccp_seal(key, nonce, aad, pt)
    return _gcm_seal(key, nonce, aad, pt)


def aead_open(aead, key, nonce, aad, ct_and_tag):
    """The plaintext, or None if authentication fails (or input < 16 bytes)."""
    _aead_check(aead, key, nonce)
    key, nonce, aad, data = bytes(key), bytes(nonce), bytes(aad), bytes(ct_and_tag)
    if aead == "chacha20poly1305":
        return _ccp_open(key, nonce, aad, data)
    return _gcm_open(key, nonce, aad, data)
