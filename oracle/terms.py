"""Evaluation of the specification's symbolic byte strings (spec/HpkeBytes.tla) to concrete bytes.

A symbolic byte string, as TLC prints it through ToJson, is a list of chunks:
    ["b", [b1, ..., bn]]      literal bytes
    ["t", term, n]            n bytes denoted by `term` = [tag, arg, ...]

Two evaluators share the structural part (literals, leaves, slice / flip / mask / xor):

* ExactEval   computes every primitive term with the pure-Python primitives of prims.py.  It knows
              nothing about HPKE: labels, suite ids, orderings all arrive inside the terms.
* PatternEval never computes a primitive: an opaque term denotes whatever bytes the implementation
              produced for it earlier in the same behaviour (a binding table), so that only the
              EQUALITY PATTERN of the specification's predictions is compared with the code.
"""
import json

from . import prims

KEM_CURVE = {16: "p256", 17: "p384", 18: "p521"}
AEAD_NAME = {1: "aes128gcm", 2: "aes256gcm", 3: "chacha20poly1305"}

# terms that are plain byte surgery on their arguments (never opaque)
STRUCTURAL = {"leaf", "slice", "flip", "mask", "xor", "hole"}


STATS = {"firstvalid_retries": 0}


class Unbound(Exception):
    """pattern mode: a term the implementation has not produced (yet)"""


class EvalError(Exception):
    pass


def key_of(x):
    """canonical hashable key of a JSON value (chunk, term or chunk list)"""
    return json.dumps(x, separators=(",", ":"), sort_keys=True)


def blen(chunks):
    n = 0
    for c in chunks:
        n += len(c[1]) if c[0] == "b" else c[2]
    return n


def xor_bytes(a, b):
    if len(a) != len(b):
        raise EvalError("xor length mismatch")
    return bytes(x ^ y for x, y in zip(a, b))


def flip_bit(b, k):
    if k // 8 >= len(b):
        raise EvalError("flip out of range")
    out = bytearray(b)
    out[k // 8] ^= 1 << (k % 8)
    return bytes(out)


class BaseEval:
    def __init__(self, leaves=None):
        self.leaves = dict(leaves or {})      # leaf name -> bytes
        self.hole = None                      # current value of the counter "hole" (firstvalid)

    # -- public ------------------------------------------------------------------------------
    def eval(self, chunks):
        return b"".join(self.chunk(c) for c in chunks)

    def chunk(self, c):
        if c[0] == "b":
            return bytes(c[1])
        term, n = c[1], c[2]
        v = self.term(term, n, c)
        if len(v) != n:
            raise EvalError("term %s evaluates to %d bytes, specification says %d" % (term[0], len(v), n))
        return v

    # -- structural terms -----------------------------------------------------------------------
    def term(self, t, n, c):
        tag = t[0]
        if tag == "leaf":
            try:
                v = self.leaves[t[1]]
            except KeyError:
                raise EvalError("no value for leaf %r" % (t[1],))
            if len(v) != n:
                raise EvalError("leaf %r has %d bytes, specification says %d" % (t[1], len(v), n))
            return v
        if tag == "slice":                       # ["slice", chunk, off, n]
            whole = self.chunk(t[1])
            return whole[t[2]:t[2] + t[3]]
        if tag == "flip":                        # ["flip", chunks, bit]
            return flip_bit(self.eval(t[1]), t[2])
        if tag == "mask":                        # ["mask", m, chunks]: first byte &= m
            v = bytearray(self.eval(t[2]))
            v[0] &= t[1]
            return bytes(v)
        if tag == "xor":
            return xor_bytes(self.eval(t[1]), self.eval(t[2]))
        if tag == "hole":
            if self.hole is None:
                raise EvalError("hole outside firstvalid")
            return bytes([self.hole])
        return self.opaque(t, n, c)

    def opaque(self, t, n, c):
        raise NotImplementedError


class ExactEval(BaseEval):
    """evaluates primitive terms with prims.py; memoises on the term"""

    def __init__(self, leaves=None):
        super().__init__(leaves)
        self.memo = {}
        self.counts = {}

    def opaque(self, t, n, c):
        if self.hole is not None:                # inside firstvalid: value depends on the hole
            return self.compute(t, n)
        k = key_of(t)
        v = self.memo.get(k)
        if v is None:
            v = self.compute(t, n)
            self.memo[k] = v
        return v

    def compute(self, t, n):
        tag = t[0]
        self.counts[tag] = self.counts.get(tag, 0) + 1
        if tag == "extract":
            return prims.hkdf_extract(t[1], self.eval(t[2]), self.eval(t[3]))
        if tag == "expand":
            return prims.hkdf_expand(t[1], self.eval(t[2]), self.eval(t[3]), t[4])
        if tag == "pk":
            return self.pk(t[1], self.eval(t[2]))
        if tag == "dh":                          # ["dh", kem, [sk1, sk2]] (a set: 1 or 2 elements)
            sks = t[2]
            a = self.eval(sks[0])
            b = self.eval(sks[-1])
            return self.dh(t[1], a, self.pk(t[1], b))
        if tag == "dhraw":
            return self.dh(t[1], self.eval(t[2]), self.eval(t[3]))
        if tag == "firstvalid":                  # ["firstvalid", kem, candidate-with-hole]
            curve = KEM_CURVE[t[1]]
            if self.hole is not None:
                raise EvalError("nested firstvalid")
            try:
                for ctr in range(256):
                    self.hole = ctr
                    cand = self.eval(t[2])
                    if prims.nist_sk_valid(curve, cand):
                        STATS["firstvalid_retries"] += ctr      # > 0: the rejection branch of the loop was taken
                        return cand
            finally:
                self.hole = None
            raise EvalError("DeriveKeyPair: no valid candidate")
        if tag in ("aeadct", "aeadtag"):
            return self.aead(t)
        if tag == "x25519pre":                   # ["x25519pre", sk, shape, i]: a peer key whose DH with sk has a chosen SHAPE
            return prims.x25519_preimage(self.eval(t[1]), x25519_shaped_output(t[2], t[3]))
        if tag == "mkxy":                        # ["mkxy", kem, recipe, i]: adversarial coordinate pairs (C09)
            return make_xy(KEM_CURVE[t[1]], t[2], t[3])
        if tag == "mksk":                        # ["mksk", kem, recipe, i]: scalars around the group order
            return make_sk(KEM_CURVE[t[1]], t[2], t[3])
        raise EvalError("unknown term tag %r" % (tag,))

    def pk(self, kem, sk):
        if kem == 32:
            return prims.x25519_base(sk)
        return prims.nist_pk(KEM_CURVE[kem], sk)

    def dh(self, kem, sk, pk):
        if kem == 32:
            return prims.x25519(sk, pk)
        return prims.nist_dh(KEM_CURVE[kem], sk, pk)

    def aead(self, t):
        # ["aeadct", a, key, nonce, pt]  /  ["aeadtag", a, key, nonce, aad, pt]
        if t[0] == "aeadct":
            a, key, nonce, pt = t[1], self.eval(t[2]), self.eval(t[3]), self.eval(t[4])
            # the body of all three AEADs is pt XOR keystream(key, nonce): independent of the aad
            return prims.aead_seal(AEAD_NAME[a], key, nonce, b"", pt)[:len(pt)]
        a, key, nonce, aad, pt = t[1], self.eval(t[2]), self.eval(t[3]), self.eval(t[4]), self.eval(t[5])
        return prims.aead_seal(AEAD_NAME[a], key, nonce, aad, pt)[len(pt):]


class PatternEval(BaseEval):
    """opaque terms denote what the implementation produced for them; see module docstring"""

    MIN_DISTINCT = 16      # "different terms => different bytes" is only demanded from this length on

    def __init__(self, leaves=None):
        super().__init__(leaves)
        self.bound = {}        # key_of(chunk) -> bytes
        self.inverse = {}      # bytes -> key_of(chunk)   (only len >= MIN_DISTINCT)

    def opaque(self, t, n, c):
        try:
            return self.bound[key_of(c)]
        except KeyError:
            raise Unbound(t[0])

    def observe(self, chunks, data):
        """The implementation returned `data` where the specification predicts `chunks`.
        Returns a list of mismatch descriptions (empty = consistent) and extends the bindings."""
        problems = []
        if blen(chunks) != len(data):
            return ["length %d, specification predicts %d" % (len(data), blen(chunks))]
        off = 0
        for c in chunks:
            n = len(c[1]) if c[0] == "b" else c[2]
            piece = data[off:off + n]
            off += n
            if c[0] == "b":
                if bytes(c[1]) != piece:
                    problems.append("literal bytes differ at offset %d" % (off - n))
                continue
            tag = c[1][0]
            if tag in STRUCTURAL:
                try:
                    want = self.chunk(c)
                except Unbound:
                    continue       # built from a value not seen yet: nothing to compare
                if want != piece:
                    problems.append("%s chunk differs at offset %d" % (tag, off - n))
                continue
            k = key_of(c)
            if k in self.bound:
                if self.bound[k] != piece:
                    problems.append("term %s produced different bytes than before (offset %d)" % (tag, off - n))
                continue
            if n >= self.MIN_DISTINCT:
                other = self.inverse.get(piece)
                if other is not None and other != k:
                    problems.append("two different terms (%s and %s...) produced the same %d bytes"
                                    % (tag, json.loads(other)[1][0], n))
                    continue
                self.inverse[piece] = k
            self.bound[k] = piece
        return problems


def leaves_of(x, acc=None):
    """all (name, length) leaves occurring in a JSON value"""
    if acc is None:
        acc = {}
    if isinstance(x, list):
        if len(x) == 3 and x[0] == "t" and isinstance(x[1], list) and x[1] and x[1][0] == "leaf":
            acc[x[1][1]] = x[2]
        else:
            for y in x:
                leaves_of(y, acc)
    elif isinstance(x, dict):
        for y in x.values():
            leaves_of(y, acc)
    return acc


# ---- constructors of test inputs for public / private key validation (C09) -----------------------------
import random as _random


def _rng(*parts):
    return _random.Random("|".join(str(p) for p in parts))


import functools


@functools.lru_cache(maxsize=None)
def x25519_shaped_output(shape, i):
    """a u-coordinate in a prime-order subgroup (so that it IS a possible X25519 output) whose 32 bytes have a shape a
    sloppy all-zero test or a truncating encoder trips over; see spec/MC_Kem.tla ShapedDh"""
    r = _rng("x25519shape", shape, i)
    for _ in range(400):
        a, b = r.getrandbits(64), r.getrandbits(63)
        limbs = {"xorfold": (a, a, 0, 0),            # the four 64-bit words XOR to zero, upper half zero
                 "abab": (a, b, a, b),               # the words XOR to zero
                 "lowzero": (0, 0, a, b),            # lower 16 bytes zero
                 "highzero": (a, b | (1 << 63), 0, 0),   # upper 16 bytes zero
                 "onebyte": (r.getrandbits(8) | 1, 0, 0, 0),   # a single non-zero byte
                 "allsame": None}[shape]
        if limbs is None:
            v = int.from_bytes(bytes([r.getrandbits(7)]) * 32, "little")
        else:
            v = sum(w << (64 * k) for k, w in enumerate(limbs))
        if 1 < v < prims.X25519_P and prims.x25519_subgroup_order(v) is not None:
            return v
    raise EvalError("no X25519 output of shape " + shape)


@functools.lru_cache(maxsize=None)
def make_xy(curve, recipe, i):
    """X || Y (fixed width) for the named recipe; see spec/MC_Codec.tla XyRecipes"""
    c = prims.CURVES[curve]
    p, n = c.p, c.coord_len
    top = (1 << (8 * n)) - 1
    r = _rng("xy", curve, recipe, i)
    x, y = prims.nist_random_point(curve, r)
    if recipe == "point":
        X, Y = x, y
    elif recipe == "negpoint":
        X, Y = x, p - y
    elif recipe == "yplus1":
        X, Y = x, (y + 1) % p
    elif recipe == "otherb":
        X, Y = prims.nist_point_other_b(curve, r)
    elif recipe == "twistx":
        X, Y = prims.nist_twist_x(curve, r), r.randrange(p)
    elif recipe == "zerozero":
        X, Y = 0, 0
    elif recipe == "swapxy":
        X, Y = y, x
    elif recipe == "xzero":
        X, Y = 0, prims.nist_lift_x(curve, 0)        # b is a square on P-256, P-384 and P-521
        if Y is None:
            raise EvalError("no point with x = 0 on " + curve)
    elif recipe in ("smallx", "leadzero"):
        # a VALID point whose abscissa has leading zero bytes (x < 2^16 resp. x < 2^(8(n-2))): its DH outputs with the
        # scalars 1 and n-1 are that abscissa - shared secrets with leading zeros, the classic truncation trap
        x0 = (1 + 997 * i) if recipe == "smallx" else r.randrange(1 << (8 * (n - 2)))
        while prims.nist_lift_x(curve, x0) is None:
            x0 += 1
        X, Y = x0, prims.nist_lift_x(curve, x0)
    elif recipe == "xplusp":
        # a curve point whose abscissa is small enough for x + p to fit: a non-canonical encoding of a VALID point
        x0 = 1000 * i
        while True:
            y0 = prims.nist_lift_x(curve, x0)
            if y0 is not None and x0 + p <= top:
                break
            x0 += 1
        X, Y = x0 + p, y0
    elif recipe == "yplusp":
        if y + p > top:
            raise EvalError("y + p does not fit on " + curve)
        X, Y = x, y + p
    elif recipe == "xmax":
        X, Y = top, y
    elif recipe == "ymax":
        X, Y = x, top
    elif recipe == "xisp":
        X, Y = p, y
    elif recipe == "yisp":
        X, Y = x, p
    else:
        raise EvalError("unknown xy recipe " + recipe)
    return X.to_bytes(n, "big") + Y.to_bytes(n, "big")


@functools.lru_cache(maxsize=None)
def make_sk(curve, recipe, i):
    c = prims.CURVES[curve]
    N, order = c.sk_len, c.n
    top = (1 << (8 * N)) - 1
    r = _rng("sk", curve, recipe, i)
    v = {"zero": 0, "one": 1, "two": 2, "nminus1": order - 1, "n": order, "nplus1": order + 1, "max": top}.get(recipe)
    if recipe == "mid":
        v = r.randrange(2, order - 1)
    elif recipe == "nplusmid":
        v = order + r.randrange(2, top - order)
    elif recipe == "bit520":
        v = (1 << 520) + r.randrange(1 << 519)
    elif recipe == "bit521":
        v = (1 << 521) + r.randrange(1 << 520)
    elif recipe == "bit527":
        v = (1 << 527) + r.randrange(1 << 520)
    if v is None:
        raise EvalError("unknown sk recipe " + recipe)
    return v.to_bytes(N, "big")


def sec1_facts(curve, b):
    """(length ok, leading byte, X < p, Y < p, (X mod p, Y mod p) on the curve) straight from the SEC1 definition"""
    c = prims.CURVES[curve]
    if len(b) != c.pk_len:
        return (False, b[0] if b else None, None, None, None)
    X = int.from_bytes(b[1:1 + c.coord_len], "big")
    Y = int.from_bytes(b[1 + c.coord_len:], "big")
    return (True, b[0], X < c.p, Y < c.p, prims.nist_on_curve(curve, X % c.p, Y % c.p))
