#!/usr/bin/env python3
"""Self-test for prims.py.

    python3 selftest.py            run all checks (exit 0 + one summary line)
    python3 selftest.py --bench    additionally print timings
    python3 selftest.py -v         list every check

The checks are of three kinds:
  * published test vectors (RFC 5869, 5903, 7748, 8439, 9180; FIPS 197; the
    GCM specification's test cases),
  * constants proven by computation (primality, group orders, small-order
    points),
  * cross-checks of the fast code in prims.py against slow, independently
    written reference code that lives only in this file (affine curve
    arithmetic, byte-wise AES, bit-wise GHASH, list-based ChaCha20, hand-made
    HMAC, affine Montgomery arithmetic for X25519).
"""

import hashlib
import math
import os
import random
import struct
import sys
import time

sys.path.insert(0, os.path.dirname(os.path.abspath(__file__)))
import prims as P  # noqa: E402

H = bytes.fromhex

_failures = []
_count = 0
_verbose = "-v" in sys.argv[1:]


def check(name, cond, detail=""):
    global _count
    _count += 1
    if _verbose:
        print("%s %s" % ("ok  " if cond else "FAIL", name))
    if not cond:
        _failures.append(name + ((": " + detail) if detail else ""))


def check_eq(name, got, want):
    if isinstance(got, (bytes, bytearray)):
        g, w = bytes(got).hex(), bytes(want).hex()
    else:
        g, w = repr(got), repr(want)
    check(name, got == want, "got %s want %s" % (g, w))


_known_mistyped = []


def known_mistyped(name, reproduces):
    """A value that is wrong AS GIVEN in the task statement (see the comment at
    the call site).  The as-given value is still evaluated on every run; it is
    reported in the summary, and it becomes a failure if it ever starts to
    reproduce (that would mean the analysis in the comment is wrong)."""
    _known_mistyped.append(name)
    check("known-mistyped input still does not reproduce: " + name, not reproduces)


def raises(exc, fn, *a):
    try:
        fn(*a)
    except exc:
        return True
    except Exception:
        return False
    return False


# ===========================================================================
# Reference code (slow, independent of prims.py)
# ===========================================================================

_SMALL_PRIMES = [2, 3, 5, 7, 11, 13, 17, 19, 23, 29, 31, 37, 41, 43, 47, 53, 59, 61, 67, 71]


def miller_rabin(n, rng, extra=12):
    if n < 2:
        return False
    for q in _SMALL_PRIMES:
        if n % q == 0:
            return n == q
    d, s = n - 1, 0
    while d % 2 == 0:
        d //= 2
        s += 1
    for a in _SMALL_PRIMES + [rng.randrange(2, n - 1) for _ in range(extra)]:
        x = pow(a, d, n)
        if x == 1 or x == n - 1:
            continue
        for _ in range(s - 1):
            x = x * x % n
            if x == n - 1:
                break
        else:
            return False
    return True


# ----- affine short-Weierstrass arithmetic (generic a; b is never used) ------

def aff_add(c, A, B):
    p = c.p
    if A is None:
        return B
    if B is None:
        return A
    x1, y1 = A
    x2, y2 = B
    if x1 == x2:
        if (y1 + y2) % p == 0:
            return None
        lam = (3 * x1 * x1 + c.a) * pow(2 * y1, -1, p) % p
    else:
        lam = (y2 - y1) * pow(x2 - x1, -1, p) % p
    x3 = (lam * lam - x1 - x2) % p
    return (x3, (lam * (x1 - x3) - y1) % p)


def aff_mul(c, k, A):
    R = None
    while k:
        if k & 1:
            R = aff_add(c, R, A)
        A = aff_add(c, A, A)
        k >>= 1
    return R


# ----- byte-wise AES (FIPS 197 as written) -----------------------------------

def _xtime(a):
    a <<= 1
    return (a ^ 0x11B) & 0xFF if a & 0x100 else a


def _gmul(a, b):
    r = 0
    for _ in range(8):
        if b & 1:
            r ^= a
        a = _xtime(a)
        b >>= 1
    return r


def _ref_sbox():
    box = []
    for x in range(256):
        # x^254 by square-and-multiply (254 = 0b11111110)
        inv, sq = 1, x
        e = 254
        while e:
            if e & 1:
                inv = _gmul(inv, sq)
            sq = _gmul(sq, sq)
            e >>= 1
        if x == 0:
            inv = 0
        s = 0
        for i in range(8):
            bit = ((inv >> i) ^ (inv >> ((i + 4) % 8)) ^ (inv >> ((i + 5) % 8)) ^
                   (inv >> ((i + 6) % 8)) ^ (inv >> ((i + 7) % 8)) ^ (0x63 >> i)) & 1
            s |= bit << i
        box.append(s)
    return box


REF_SBOX = _ref_sbox()


def ref_aes_encrypt(key, block):
    nk = len(key) // 4
    nr = nk + 6
    w = [list(key[4 * i:4 * i + 4]) for i in range(nk)]
    rc = 1
    for i in range(nk, 4 * (nr + 1)):
        t = list(w[i - 1])
        if i % nk == 0:
            t = t[1:] + t[:1]
            t = [REF_SBOX[v] for v in t]
            t[0] ^= rc
            rc = _xtime(rc)
        elif nk > 6 and i % nk == 4:
            t = [REF_SBOX[v] for v in t]
        w.append([w[i - nk][j] ^ t[j] for j in range(4)])

    def add_round_key(st, r):
        return [st[i] ^ w[4 * r + i // 4][i % 4] for i in range(16)]

    st = add_round_key(list(block), 0)          # st[4*col + row]
    for r in range(1, nr + 1):
        st = [REF_SBOX[v] for v in st]
        st = [st[4 * ((col + row) % 4) + row] for col in range(4) for row in range(4)]
        if r != nr:
            ns = []
            for col in range(4):
                a0, a1, a2, a3 = st[4 * col:4 * col + 4]
                ns += [_gmul(a0, 2) ^ _gmul(a1, 3) ^ a2 ^ a3,
                       a0 ^ _gmul(a1, 2) ^ _gmul(a2, 3) ^ a3,
                       a0 ^ a1 ^ _gmul(a2, 2) ^ _gmul(a3, 3),
                       _gmul(a0, 3) ^ a1 ^ a2 ^ _gmul(a3, 2)]
            st = ns
        st = add_round_key(st, r)
    return bytes(st)


# ----- bit-wise GCM (SP 800-38D algorithms 1-4, 96-bit IV) -------------------

def ref_gf128_mul(x, y):
    R = 0xE1000000000000000000000000000000
    z, v = 0, y
    for i in range(128):
        if (x >> (127 - i)) & 1:
            z ^= v
        v = (v >> 1) ^ R if v & 1 else v >> 1
    return z


def ref_ghash(h, data):
    y = 0
    for i in range(0, len(data), 16):
        y = ref_gf128_mul(y ^ int.from_bytes(data[i:i + 16], "big"), h)
    return y


def ref_gcm_seal(key, nonce, aad, pt):
    h = int.from_bytes(ref_aes_encrypt(key, bytes(16)), "big")
    j0 = nonce + b"\x00\x00\x00\x01"
    ct = bytearray()
    ctr = 1
    for i in range(0, len(pt), 16):
        ctr += 1
        ks = ref_aes_encrypt(key, nonce + struct.pack(">I", ctr & 0xFFFFFFFF))
        ct += bytes(a ^ b for a, b in zip(pt[i:i + 16], ks))
    ct = bytes(ct)

    def pad(b):
        return b + bytes(-len(b) % 16)
    s = ref_ghash(h, pad(aad) + pad(ct) + struct.pack(">QQ", 8 * len(aad), 8 * len(ct)))
    tag = (s ^ int.from_bytes(ref_aes_encrypt(key, j0), "big")).to_bytes(16, "big")
    return ct + tag


# ----- list-based ChaCha20 block (RFC 8439 section 2.3) ----------------------

def ref_chacha20_block(key, counter, nonce):
    def rotl(v, n):
        return ((v << n) | (v >> (32 - n))) & 0xFFFFFFFF

    def qr(s, a, b, c, d):
        s[a] = (s[a] + s[b]) & 0xFFFFFFFF; s[d] = rotl(s[d] ^ s[a], 16)
        s[c] = (s[c] + s[d]) & 0xFFFFFFFF; s[b] = rotl(s[b] ^ s[c], 12)
        s[a] = (s[a] + s[b]) & 0xFFFFFFFF; s[d] = rotl(s[d] ^ s[a], 8)
        s[c] = (s[c] + s[d]) & 0xFFFFFFFF; s[b] = rotl(s[b] ^ s[c], 7)

    init = list(struct.unpack("<4I", b"expand 32-byte k")) + list(struct.unpack("<8I", key)) + \
        [counter] + list(struct.unpack("<3I", nonce))
    s = list(init)
    for _ in range(10):
        qr(s, 0, 4, 8, 12); qr(s, 1, 5, 9, 13); qr(s, 2, 6, 10, 14); qr(s, 3, 7, 11, 15)
        qr(s, 0, 5, 10, 15); qr(s, 1, 6, 11, 12); qr(s, 2, 7, 8, 13); qr(s, 3, 4, 9, 14)
    return struct.pack("<16I", *[(s[i] + init[i]) & 0xFFFFFFFF for i in range(16)])


# ----- hand-made HMAC / HKDF --------------------------------------------------

def ref_hmac(hname, key, msg):
    fn = getattr(hashlib, hname)
    bs = fn().block_size
    if len(key) > bs:
        key = fn(key).digest()
    key = key + bytes(bs - len(key))
    ipad = bytes(b ^ 0x36 for b in key)
    opad = bytes(b ^ 0x5C for b in key)
    return fn(opad + fn(ipad + msg).digest()).digest()


def ref_hkdf_expand(hname, prk, info, L):
    t, okm, i = b"", b"", 0
    while len(okm) < L:
        i += 1
        t = ref_hmac(hname, prk, t + info + bytes([i]))
        okm += t
    return okm[:L]


# ----- affine Montgomery arithmetic on curve25519 ----------------------------

M_P = 2**255 - 19
M_A = 486662


def mont_sqrt(v):
    """A square root of v mod 2^255-19 (p = 5 mod 8), or None."""
    r = pow(v, (M_P + 3) // 8, M_P)
    if r * r % M_P != v % M_P:
        r = r * pow(2, (M_P - 1) // 4, M_P) % M_P
    if r * r % M_P != v % M_P:
        return None
    return r


def mont_add(A, B):
    p = M_P
    if A is None:
        return B
    if B is None:
        return A
    u1, v1 = A
    u2, v2 = B
    if u1 == u2:
        if (v1 + v2) % p == 0:
            return None
        lam = (3 * u1 * u1 + 2 * M_A * u1 + 1) * pow(2 * v1, -1, p) % p
    else:
        lam = (v2 - v1) * pow(u2 - u1, -1, p) % p
    u3 = (lam * lam - M_A - u1 - u2) % p
    return (u3, (lam * (u1 - u3) - v1) % p)


def mont_mul(k, A):
    R = None
    while k:
        if k & 1:
            R = mont_add(R, A)
        A = mont_add(A, A)
        k >>= 1
    return R


def mont_double_u(u):
    """u-coordinate of 2*P from that of P (None = infinity)."""
    p = M_P
    den = 4 * u * (u * u + M_A * u + 1) % p
    if den == 0:
        return None
    return (u * u - 1) ** 2 * pow(den, -1, p) % p


# ===========================================================================
# Checks
# ===========================================================================

def test_hkdf(rng):
    check_eq("HASH_LEN", P.HASH_LEN, {"sha256": 32, "sha384": 48, "sha512": 64})
    # RFC 5869 A.1
    ikm = b"\x0b" * 22
    salt = bytes(range(0x0D))
    info = bytes(range(0xF0, 0xFA))
    prk = P.hkdf_extract("sha256", salt, ikm)
    check_eq("RFC5869 TC1 PRK", prk,
             H("077709362c2e32df0ddc3f0dc47bba6390b6c73bb50f9c3122ec844ad7c2b3e5"))
    check_eq("RFC5869 TC1 OKM", P.hkdf_expand("sha256", prk, info, 42),
             H("3cb25f25faacd57a90434f64d0362f2a2d2d0a90cf1a5a4c5db02d56ecc4c5bf"
               "34007208d5b887185865"))
    # RFC 5869 A.3 (zero-length salt and info) -- extra vector, not in the task list
    prk3 = P.hkdf_extract("sha256", b"", ikm)
    check_eq("RFC5869 TC3 PRK", prk3,
             H("19ef24a32c717b167f33a91d6f648bdf96596776afdb6377ac434c1c293ccb04"))
    check_eq("RFC5869 TC3 OKM", P.hkdf_expand("sha256", prk3, b"", 42),
             H("8da4e775a563c18f715f802a063c5a31b8a11f5c5ee1879ec3454e5f3c738d2d"
               "9d201395faa4b61a96c8"))
    for hname, hlen in P.HASH_LEN.items():
        check_eq("hashlib digest size " + hname, getattr(hashlib, hname)().digest_size, hlen)
        check_eq("hkdf empty salt == zero salt " + hname,
                 P.hkdf_extract(hname, b"", b"ikm"), P.hkdf_extract(hname, bytes(hlen), b"ikm"))
        for _ in range(4):
            salt = rng.randbytes(rng.choice([0, 1, hlen, 200]))
            ikm = rng.randbytes(rng.randrange(0, 100))
            info = rng.randbytes(rng.randrange(0, 100))
            L = rng.choice([0, 1, hlen - 1, hlen, hlen + 1, 3 * hlen, 5 * hlen + 7])
            prk = P.hkdf_extract(hname, salt, ikm)
            check_eq("hkdf_extract vs hand-made HMAC " + hname, prk,
                     ref_hmac(hname, salt if salt else bytes(hlen), ikm))
            okm = P.hkdf_expand(hname, prk, info, L)
            check_eq("hkdf_expand vs hand-made " + hname, okm, ref_hkdf_expand(hname, prk, info, L))
            check("hkdf_expand prefix property " + hname,
                  P.hkdf_expand(hname, prk, info, L + 40)[:L] == okm)
        prk = rng.randbytes(hlen)
        check_eq("hkdf_expand L=0 " + hname, P.hkdf_expand(hname, prk, b"x", 0), b"")
        mx = P.hkdf_expand(hname, prk, b"x", 255 * hlen)
        check("hkdf_expand max L " + hname,
              len(mx) == 255 * hlen and mx == ref_hkdf_expand(hname, prk, b"x", 255 * hlen))
        check("hkdf_expand L too large raises " + hname,
              raises(ValueError, P.hkdf_expand, hname, prk, b"x", 255 * hlen + 1))
    check("hkdf unknown hash raises", raises(ValueError, P.hkdf_extract, "md5", b"", b""))


def test_x25519(rng):
    p = P.X25519_P
    check_eq("X25519_P", p, 2**255 - 19)
    check("2^255-19 is prime", miller_rabin(p, rng))
    # RFC 7748 section 5.2
    check_eq("RFC7748 5.2 vector 1",
             P.x25519(H("a546e36bf0527c9d3b16154b82465edd62144c0ac1fc5a18506a2244ba449ac4"),
                      H("e6db6867583030db3594c1a424b15f7c726624ec26b3353b10a903a6d0ab1c4c")),
             H("c3da55379de9c6908e94ea4df28d084f32eccf03491c71f754b4075577a28552"))
    # RFC 7748 section 5.2, one iteration of the iterated test (extra vector)
    nine = (9).to_bytes(32, "little")
    check_eq("RFC7748 5.2 iterated x1", P.x25519(nine, nine),
             H("422c8e7a6227d7bca1350b3e2bb7279f7897b87bb6854b783c60e80311ae3079"))
    # RFC 7748 section 6.1
    a = H("77076d0a7318a57d3c16c17251b26645df4c2f87ebc0992ab177fba51db92c2a")
    # Bob's private key exactly as given in the task statement.  MISTYPED IN THE
    # SOURCE: byte 18 is 0xbb, RFC 7748 has 0xb1 (...6f3bb129 2618b6fd...).
    # Evidence: with 0xb1 the *given* pk and shared secret both reproduce; with
    # 0xbb neither does, and the independent affine reference below agrees with
    # the ladder on the as-given scalar too.  Kept as a known mismatch.
    b_as_given = H("5dab087e624a8a4b79e17f8b83800ee66f3bbb292618b6fd1c2f8b27ff88e0eb")
    b = H("5dab087e624a8a4b79e17f8b83800ee66f3bb1292618b6fd1c2f8b27ff88e0eb")
    A = H("8520f0098930a754748b7ddcb43ef75a0dbf3a0d26381af4eba4a98eaa9b4e6a")
    B = H("de9edb7d7b7dc1b4d35b61c2ece435373f8343c85b78674dadfc7e146f882b4f")
    K = H("4a5d9d5ba4ce2de1728e3bf480350f25e07e21c947d19e3376f09b3c1e161742")
    check_eq("RFC7748 6.1 Alice pk", P.x25519_base(a), A)
    check_eq("RFC7748 6.1 Bob pk", P.x25519_base(b), B)
    check_eq("RFC7748 6.1 shared (a,B)", P.x25519(a, B), K)
    check_eq("RFC7748 6.1 shared (b,A)", P.x25519(b, A), K)
    known_mistyped("RFC7748 6.1 Bob sk as given (byte 18: bb, RFC: b1)",
                   P.x25519_base(b_as_given) == B or P.x25519(b_as_given, A) == K)
    nine_v = mont_sqrt((9**3 + M_A * 81 + 9) % M_P)
    for name, sk, want in (("as given", b_as_given, None), ("corrected", b, B)):
        R = mont_mul(int.from_bytes(P.x25519_clamp(sk), "little"), (9, nine_v))
        check_eq("Bob pk (%s sk): ladder vs affine reference" % name,
                 P.x25519_base(sk), R[0].to_bytes(32, "little"))

    # clamping
    k = bytes([0xFF] * 32)
    check_eq("clamp ff..ff", P.x25519_clamp(k), bytes([0xF8]) + bytes([0xFF] * 30) + bytes([0x7F]))
    check_eq("clamp 00..00", P.x25519_clamp(bytes(32)), bytes(31) + bytes([0x40]))
    for _ in range(3):
        k = rng.randbytes(32)
        u = rng.randbytes(32)
        check("x25519 clamps its scalar", P.x25519(k, u) == P.x25519(P.x25519_clamp(k), u))
        ui = int.from_bytes(u, "little")
        check("x25519 ignores bit 255 of u",
              P.x25519(k, (ui | 1 << 255).to_bytes(32, "little")) ==
              P.x25519(k, (ui & ~(1 << 255)).to_bytes(32, "little")))
        k2 = rng.randbytes(32)
        check("x25519 DH commutes",
              P.x25519(k, P.x25519_base(k2)) == P.x25519(k2, P.x25519_base(k)))
    # non-canonical u (p <= u < 2^255) is reduced, not rejected: p+9 acts like 9
    k = rng.randbytes(32)
    check_eq("x25519 non-canonical u = p+9", P.x25519(k, (p + 9).to_bytes(32, "little")),
             P.x25519_base(k))
    check_eq("x25519 non-canonical u = p+18 (2^255-1)",
             P.x25519(k, (2**255 - 1).to_bytes(32, "little")),
             P.x25519(k, (18).to_bytes(32, "little")))
    check("x25519 bad lengths raise",
          raises(ValueError, P.x25519, bytes(31), bytes(32)) and
          raises(ValueError, P.x25519, bytes(32), bytes(33)))

    # ladder vs affine Montgomery arithmetic on random curve points
    done = 0
    while done < 3:
        u = rng.randrange(p)
        v = mont_sqrt((u * u * u + M_A * u * u + u) % p)
        if v is None:
            continue
        k = rng.randbytes(32)
        R = mont_mul(int.from_bytes(P.x25519_clamp(k), "little"), (u, v))
        want = (R[0] if R is not None else 0).to_bytes(32, "little")
        check_eq("x25519 ladder vs affine reference", P.x25519(k, u.to_bytes(32, "little")), want)
        done += 1

    # small-order list
    so = P.X25519_SMALL_ORDER_U
    check("small-order list: 7 distinct values < 2^255",
          len(so) == 7 and len(set(so)) == 7 and all(0 <= u < 2**255 for u in so))
    check_eq("small-order list: residues", sorted(set(u % p for u in so)),
             sorted([0, 1, p - 1,
                     int.from_bytes(H("e0eb7a7c3b41b8ae1656e3faf19fc46ada098deb9c32b1fd866205165f49b800"), "little"),
                     int.from_bytes(H("5f9c95bca3508c24b1d0b1559c83ef5b04445cc4581c8e86d8224eddd09f1157"), "little")]))
    check("small-order list contains 0,1,p-1,p,p+1", {0, 1, p - 1, p, p + 1} <= set(so))
    # algebraic proof via the doubling map on u: order-8 -> order-4 (u = +-1)
    # -> order-2 (u = 0) -> infinity.
    for u in so:
        r = u % p
        chain = [r]
        while chain[-1] is not None and len(chain) < 6:
            chain.append(mont_double_u(chain[-1]))
        check("small-order u reaches infinity in <= 3 doublings (u=%x)" % u,
              chain[-1] is None and len(chain) <= 4, repr(chain))
    o8 = [u for u in so if u % p not in (0, 1, p - 1)]
    check("two order-8 u: double to +-1",
          len(o8) == 2 and all(mont_double_u(u) in (1, p - 1) for u in o8))
    # the 14 encodings give zero for random scalars
    encs = []
    for u in so:
        encs.append(u.to_bytes(32, "little"))
        encs.append((u | 1 << 255).to_bytes(32, "little"))
    check("14 distinct small-order encodings", len(set(encs)) == 14)
    zero = bytes(32)
    for e in encs:
        ok = all(P.x25519(rng.randbytes(32), e) == zero for _ in range(3))
        check("small-order encoding -> zero (%s)" % e.hex(), ok)
    n = 0
    while n < 12:
        e = rng.randbytes(32)
        if e in encs:
            continue
        n += 1
        check("random u -> non-zero", P.x25519(rng.randbytes(32), e) != zero)
    # neighbours of the small-order values are not small-order
    for u in (2, p - 2, p + 2, so[5] + 1, so[6] - 1):
        check("neighbour u=%x -> non-zero" % u,
              P.x25519(rng.randbytes(32), u.to_bytes(32, "little")) != zero)


# The order of P-521 exactly as given in the task statement / DESIGN.md
# Appendix C.  MISTYPED IN THE SOURCE: it has 67 'f' digits after "01" where the
# real order has 65 (the given value is a 529-bit number, which cannot be the
# order of a curve over a 521-bit field).  prims.py uses the corrected value;
# the checks below prove that the corrected value is right and the given one
# is not, so the discrepancy stays visible instead of being silently "fixed".
P521_N_AS_GIVEN = 0x01fffffffffffffffffffffffffffffffffffffffffffffffffffffffffffffffffffa51868783bf2f966b7fcc0148f709a5d03bb5c9b8899c47aebb6fb71e91386409


def test_nist_constants(rng):
    check_eq("curve names", sorted(P.CURVES), ["p256", "p384", "p521"])
    want_len = {"p256": (32, 32, 65), "p384": (48, 48, 97), "p521": (66, 66, 133)}
    want_p = {"p256": 2**256 - 2**224 + 2**192 + 2**96 - 1,
              "p384": 2**384 - 2**128 - 2**96 + 2**32 - 1,
              "p521": 2**521 - 1}
    for name, c in P.CURVES.items():
        G = (c.Gx, c.Gy)
        check_eq(name + " lengths", (c.coord_len, c.sk_len, c.pk_len), want_len[name])
        check_eq(name + " p", c.p, want_p[name])
        check(name + " dict-style access", c["p"] == c.p and c["pk_len"] == c.pk_len)
        check(name + " a = p-3", c.a == c.p - 3)
        check(name + " p = 3 mod 4", c.p % 4 == 3)
        check(name + " p fits coord_len tightly",
              (c.p.bit_length() + 7) // 8 == c.coord_len and (c.n.bit_length() + 7) // 8 == c.sk_len)
        check(name + " p prime (Miller-Rabin)", miller_rabin(c.p, rng))
        check(name + " n prime (Miller-Rabin)", miller_rabin(c.n, rng))
        check(name + " Hasse: |n-(p+1)| <= 2 sqrt p", abs(c.n - (c.p + 1)) <= 2 * math.isqrt(c.p) + 1)
        check(name + " nonsingular", (4 * c.a**3 + 27 * c.b**2) % c.p != 0)
        check(name + " G on curve", P.nist_on_curve(c, *G))
        check(name + " n*G = infinity", P.nist_scalar_mult(c, c.n, G) is None)
        check_eq(name + " (n-1)*G = -G", P.nist_scalar_mult(c, c.n - 1, G), (c.Gx, c.p - c.Gy))
        check(name + " n*G = infinity (affine reference)", aff_mul(c, c.n, G) is None)
    c = P.CURVES["p521"]
    known_mistyped("P-521 order n as given (67 'f' digits, real value has 65)",
                   P.nist_scalar_mult(c, P521_N_AS_GIVEN, (c.Gx, c.Gy)) is None or
                   abs(P521_N_AS_GIVEN - (c.p + 1)) <= 2 * math.isqrt(c.p) + 1 or
                   miller_rabin(P521_N_AS_GIVEN, rng))
    check("p521 n as given is a 529-bit number", P521_N_AS_GIVEN.bit_length() == 529)
    check("p521 n used = given value with two 'f' digits removed",
          "%x" % c.n == ("%x" % P521_N_AS_GIVEN).replace("f" * 67, "f" * 65, 1))


def test_nist_arith(rng):
    for name, c in P.CURVES.items():
        G = (c.Gx, c.Gy)
        Q = P.nist_random_point(c, rng)
        check(name + " random point on curve", P.nist_on_curve(c, *Q))
        check_eq(name + " random point reproducible",
                 P.nist_random_point(c, random.Random(5)), P.nist_random_point(c, random.Random(5)))
        check(name + " 0*P, k*inf", P.nist_scalar_mult(c, 0, G) is None and
              P.nist_scalar_mult(c, 5, None) is None)
        check_eq(name + " 1*P", P.nist_scalar_mult(c, 1, Q), Q)
        check("negative scalar raises", raises(ValueError, P.nist_scalar_mult, c, -1, G))
        # small scalars exercise every window-table entry and the doubling
        # branch inside the addition
        acc = None
        ok = True
        for k in range(1, 40):
            acc = aff_add(c, acc, Q)
            ok = ok and P.nist_scalar_mult(c, k, Q) == acc
        check(name + " k*Q for k=1..39 vs repeated affine addition", ok)
        ks = [rng.randrange(c.n) for _ in range(3)] + \
             [c.n - 2, c.n + 1, 2 * c.n + 3, (1 << c.n.bit_length()) - 1, (1 << 600) + 1,
              int("f0" * 20, 16), 16, 0x10001]
        for j, k in enumerate(ks):
            pt = (G, Q)[j % 2]
            check_eq(name + " Jacobian vs affine k=%x" % k,
                     P.nist_scalar_mult(c, k, pt), aff_mul(c, k, pt))
        check_eq(name + " (n+5)*Q = 5*Q", P.nist_scalar_mult(c, c.n + 5, Q),
                 P.nist_scalar_mult(c, 5, Q))
        # points that are not on the curve (they lie on a curve with another b)
        W = P.nist_point_other_b(c, rng)
        check(name + " other-b point not on curve", not P.nist_on_curve(c, *W) and
              W[0] < c.p and W[1] < c.p)
        for k in (2, 3, 7, rng.randrange(c.n), rng.randrange(1 << 100)):
            check_eq(name + " scalar mult on other-b curve k=%x" % k,
                     P.nist_scalar_mult(c, k, W), aff_mul(c, k, W))
        # a point of order 2 (y = 0) on some other-b curve
        T = (rng.randrange(c.p), 0)
        check(name + " order-2 point", P.nist_scalar_mult(c, 2, T) is None and
              P.nist_scalar_mult(c, 3, T) == T and P.nist_scalar_mult(c, 1 << 70, T) is None)
        # lift_x / twist
        y = P.nist_lift_x(c, Q[0])
        check(name + " lift_x of a point", y in (Q[1], c.p - Q[1]))
        tx = P.nist_twist_x(c, rng)
        v = (tx**3 + c.a * tx + c.b) % c.p
        check(name + " twist x: non-residue (Euler criterion)",
              tx < c.p and P.nist_lift_x(c, tx) is None and pow(v, (c.p - 1) // 2, c.p) == c.p - 1)
        check(name + " lift_x(x >= p) is None", P.nist_lift_x(c, Q[0] + c.p) is None)
        check(name + " on_curve rejects unreduced coordinates",
              not P.nist_on_curve(c, Q[0] + c.p, Q[1]) and not P.nist_on_curve(c, Q[0], Q[1] + c.p))


def test_nist_special_cases(rng):
    """The exceptional branches of the Jacobian formulas."""
    # (a) direct unit tests on a real curve, with rescaled representatives
    for name, c in P.CURVES.items():
        p = c.p
        Q = P.nist_random_point(c, rng)
        S2 = P.nist_random_point(c, rng)

        def jac(pt, lam):
            return (pt[0] * lam * lam % p, pt[1] * lam**3 % p, lam % p)
        l1, l2 = rng.randrange(2, p), rng.randrange(2, p)
        negQ = (Q[0], p - Q[1])
        inf = (rng.randrange(p), rng.randrange(p), 0)
        check_eq(name + " jac add generic", P._jac_to_affine(P._jac_add(jac(Q, l1), jac(S2, l2), p), p),
                 aff_add(c, Q, S2))
        check_eq(name + " jac add P+P falls back to doubling",
                 P._jac_to_affine(P._jac_add(jac(Q, l1), jac(Q, l2), p), p), aff_add(c, Q, Q))
        check(name + " jac add P+(-P) = infinity",
              P._jac_to_affine(P._jac_add(jac(Q, l1), jac(negQ, l2), p), p) is None)
        check_eq(name + " jac add inf+P", P._jac_to_affine(P._jac_add(inf, jac(Q, l2), p), p), Q)
        check_eq(name + " jac add P+inf", P._jac_to_affine(P._jac_add(jac(Q, l1), inf, p), p), Q)
        check(name + " jac add inf+inf", P._jac_to_affine(P._jac_add(inf, inf, p), p) is None)
        check(name + " jac double inf", P._jac_to_affine(P._jac_double(inf, p), p) is None)
        check_eq(name + " jac double", P._jac_to_affine(P._jac_double(jac(Q, l1), p), p), aff_add(c, Q, Q))
    # (b) exhaustive: every point of several tiny curves y^2 = x^3 - 3x + b over
    # GF(31), every scalar up to beyond twice the group order.  These groups
    # have points of order 2, 3, ... so every collision inside the windowed
    # multiplication (accumulator equal to / inverse of a table entry,
    # infinity in the middle of the computation) really occurs.
    p = 31
    total = 0
    ok = True
    orders = set()
    for b in (4, 12, 24):               # group orders 24 = 2^3*3, 32 = 2^5, 27 = 3^3
        if (4 * (p - 3)**3 + 27 * b * b) % p == 0:
            continue
        tiny = P.Curve("tiny", p=p, b=b, n=1, Gx=0, Gy=0, coord_len=1)
        pts = [(x, y) for x in range(p) for y in range(p) if (y * y - x**3 + 3 * x - b) % p == 0]
        orders.add(len(pts) + 1)
        for pt in pts:
            acc = None
            for k in range(0, 2 * (len(pts) + 1) + 20):
                got = P.nist_scalar_mult(tiny, k, pt)
                if got != acc:
                    ok = False
                    _failures.append("tiny curve b=%d pt=%r k=%d: got %r want %r" % (b, pt, k, got, acc))
                acc = aff_add(tiny, acc, pt)
                total += 1
    check("tiny curves: exhaustive Jacobian vs affine (%d cases, group orders %s)"
          % (total, sorted(orders)), ok and total > 5000 and orders == {24, 32, 27})


def test_nist_keys(rng):
    # RFC 5903 section 8.1 (P-256)
    i = H("C88F01F510D9AC3F70A292DAA2316DE544E9AAB8AFE84049C62A9C57862D1433")
    gix = H("DAD0B65394221CF9B051E1FECA5787D098DFE637FC90B9EF945D0C3772581180")
    giy = H("5271A0461CDB8252D61F1C456FA3E59AB1F45B33ACCF5F58389E0577B8990BB3")
    r = H("C6EF9C5D78AE012A011164ACB397CE2088685D8F06BF9BE0B283AB46476BEE53")
    grx = H("D12DFB5289C8D4F81208B70270398C342296970A0BCCB74C736FC7554494BF63")
    gry = H("56FBF3CA366CC23E8157854C13C58D6AAC23F046ADA30F8353E74F33039872AB")
    girx = H("D6840F6B42F6EDAFD13116E0E12565202FEF8E9ECE7DCE03812464D04B9442DE")
    check_eq("RFC5903 8.1 g^i", P.nist_pk("p256", i), b"\x04" + gix + giy)
    check_eq("RFC5903 8.1 g^r", P.nist_pk("p256", r), b"\x04" + grx + gry)
    check_eq("RFC5903 8.1 g^ir (i, g^r)", P.nist_dh("p256", i, b"\x04" + grx + gry), girx)
    check_eq("RFC5903 8.1 g^ir (r, g^i)", P.nist_dh("p256", r, b"\x04" + gix + giy), girx)

    for name, c in P.CURVES.items():
        L = c.coord_len

        def sk(v, ln=L):
            return v.to_bytes(ln, "big")
        check(name + " sk_valid boundaries",
              P.nist_sk_valid(name, sk(1)) and P.nist_sk_valid(name, sk(c.n - 1)) and
              not P.nist_sk_valid(name, sk(0)) and not P.nist_sk_valid(name, sk(c.n)) and
              not P.nist_sk_valid(name, sk((1 << (8 * L)) - 1)) and
              not P.nist_sk_valid(name, sk(1, L - 1)) and not P.nist_sk_valid(name, sk(1, L + 1)) and
              not P.nist_sk_valid(name, b""))
        check_eq(name + " pk(1) = G", P.nist_pk(name, sk(1)), P.sec1_uncompressed(name, c.Gx, c.Gy))
        check_eq(name + " pk(n-1) = -G", P.nist_pk(name, sk(c.n - 1)),
                 P.sec1_uncompressed(name, c.Gx, c.p - c.Gy))
        check(name + " nist_pk rejects bad sk",
              raises(ValueError, P.nist_pk, name, sk(0)) and raises(ValueError, P.nist_pk, name, sk(c.n)) and
              raises(ValueError, P.nist_pk, name, sk(1, L - 1)))
        s1 = sk(rng.randrange(1, c.n))
        s2 = sk(rng.randrange(1, c.n))
        pk1 = P.nist_pk(name, s1)
        pk2 = P.nist_pk(name, s2)
        check(name + " pk shape", len(pk1) == c.pk_len and pk1[0] == 4 and
              P.nist_classify_pk(name, pk1) == "ok")
        d = P.nist_dh(name, s1, pk2)
        check(name + " DH commutes, length", d == P.nist_dh(name, s2, pk1) and len(d) == L)
        x2, y2 = int.from_bytes(pk2[1:1 + L], "big"), int.from_bytes(pk2[1 + L:], "big")
        check_eq(name + " DH vs affine reference", d,
                 aff_mul(c, int.from_bytes(s1, "big"), (x2, y2))[0].to_bytes(L, "big"))

        # classification
        Q = P.nist_random_point(c, rng)
        enc = P.sec1_uncompressed(name, *Q)
        check_eq(name + " classify ok", P.nist_classify_pk(name, enc), "ok")
        check_eq(name + " classify ok (-Q)", P.nist_classify_pk(
            name, P.sec1_uncompressed(name, Q[0], c.p - Q[1])), "ok")
        for bad in (b"", b"\x00", b"\x04", enc[:-1], enc + b"\x00", P.sec1_compressed(name, *Q)):
            check_eq(name + " classify len (%d bytes)" % len(bad), P.nist_classify_pk(name, bad), "len")
        for pfx in (0, 2, 3, 5, 6, 7, 0xFF):
            check_eq(name + " classify bad prefix %02x" % pfx,
                     P.nist_classify_pk(name, bytes([pfx]) + enc[1:]), "invalid")
        check_eq(name + " classify (0,0)", P.nist_classify_pk(name, b"\x04" + bytes(2 * L)), "invalid")
        check_eq(name + " classify all-zero", P.nist_classify_pk(name, bytes(c.pk_len)), "invalid")
        flipped = bytearray(enc)
        flipped[-1] ^= 1
        check_eq(name + " classify y^1", P.nist_classify_pk(name, bytes(flipped)), "invalid")
        for _ in range(3):
            tx = P.nist_twist_x(c, rng)
            for y in (0, 1, rng.randrange(c.p), Q[1]):
                check_eq(name + " classify twist x", P.nist_classify_pk(
                    name, P.sec1_uncompressed(name, tx, y)), "invalid")
            W = P.nist_point_other_b(c, rng)
            wenc = P.sec1_uncompressed(name, *W)
            check_eq(name + " classify other-b point", P.nist_classify_pk(name, wenc), "invalid")
            check(name + " nist_dh rejects other-b point", raises(ValueError, P.nist_dh, name, s1, wenc))
        check(name + " nist_dh rejects wrong length / compressed / bad sk",
              raises(ValueError, P.nist_dh, name, s1, enc[:-1]) and
              raises(ValueError, P.nist_dh, name, s1, P.sec1_compressed(name, *Q)) and
              raises(ValueError, P.nist_dh, name, sk(0), enc))
        # non-canonical coordinate x+p (same residue, but must be rejected):
        # take the smallest x >= 0 that is on the curve so that x+p still fits.
        x = 0
        while P.nist_lift_x(c, x) is None:
            x += 1
        y = P.nist_lift_x(c, x)
        check_eq(name + " canonical small-x point ok",
                 P.nist_classify_pk(name, P.sec1_uncompressed(name, x, y)), "ok")
        check_eq(name + " classify non-canonical x+p",
                 P.nist_classify_pk(name, P.sec1_uncompressed(name, x + c.p, y)), "invalid")
        if name == "p521":              # here every y+p fits in 66 bytes as well
            check_eq(name + " classify non-canonical y+p",
                     P.nist_classify_pk(name, P.sec1_uncompressed(name, Q[0], Q[1] + c.p)), "invalid")
        # coordinates equal to p itself
        check_eq(name + " classify x = p", P.nist_classify_pk(
            name, P.sec1_uncompressed(name, c.p, Q[1])), "invalid")
        # encoders
        top = (1 << (8 * L)) - 1
        e = P.sec1_uncompressed(name, top, top)
        check(name + " sec1_uncompressed max", e == b"\x04" + b"\xff" * (2 * L))
        check(name + " sec1_uncompressed overflow raises",
              raises(ValueError, P.sec1_uncompressed, name, top + 1, 0) and
              raises(ValueError, P.sec1_uncompressed, name, 0, top + 1) and
              raises(ValueError, P.sec1_uncompressed, name, -1, 0))
        check_eq(name + " sec1_uncompressed layout", P.sec1_uncompressed(name, 1, 2),
                 b"\x04" + bytes(L - 1) + b"\x01" + bytes(L - 1) + b"\x02")
        check_eq(name + " sec1_compressed even", P.sec1_compressed(name, 5, 2), b"\x02" + bytes(L - 1) + b"\x05")
        check_eq(name + " sec1_compressed odd", P.sec1_compressed(name, 5, 3), b"\x03" + bytes(L - 1) + b"\x05")
        check(name + " sec1_compressed overflow raises", raises(ValueError, P.sec1_compressed, name, top + 1, 0))
        cq = P.sec1_compressed(name, *Q)
        check(name + " sec1_compressed of Q", len(cq) == 1 + L and cq[0] == 2 + (Q[1] & 1) and
              int.from_bytes(cq[1:], "big") == Q[0])
    check("unknown curve raises", raises(ValueError, P.nist_sk_valid, "p224", b""))


def test_aes(rng):
    check("S-box is a permutation", sorted(P._SBOX) == list(range(256)))
    check("S-box spot values", P._SBOX[0] == 0x63 and P._SBOX[1] == 0x7C and P._SBOX[0x53] == 0xED
          and P._SBOX[0xFF] == 0x16)
    check("S-box vs independent derivation", P._SBOX == REF_SBOX)
    pt = H("00112233445566778899aabbccddeeff")
    check_eq("FIPS197 C.1 AES-128", P.aes_encrypt_block(bytes(range(16)), pt),
             H("69c4e0d86a7b0430d8cdb78070b4c55a"))
    check_eq("FIPS197 C.3 AES-256", P.aes_encrypt_block(bytes(range(32)), pt),
             H("8ea2b7ca516745bfeafc49904b496089"))
    check_eq("FIPS197 C.1 (reference AES)", ref_aes_encrypt(bytes(range(16)), pt),
             H("69c4e0d86a7b0430d8cdb78070b4c55a"))
    check_eq("FIPS197 C.3 (reference AES)", ref_aes_encrypt(bytes(range(32)), pt),
             H("8ea2b7ca516745bfeafc49904b496089"))
    for klen in (16, 32):
        for _ in range(8):
            k = rng.randbytes(klen)
            b = rng.randbytes(16)
            check_eq("T-table AES vs byte-wise AES (%d)" % klen, P.aes_encrypt_block(k, b),
                     ref_aes_encrypt(k, b))


def test_gcm(rng):
    check_eq("AEAD constants", (P.AEAD_NK, P.AEAD_NN, P.AEAD_NT),
             ({"aes128gcm": 16, "aes256gcm": 32, "chacha20poly1305": 32}, 12, 16))
    z16, z12 = bytes(16), bytes(12)
    # GCM specification test cases 1 and 2
    check_eq("GCM TC1", P.aead_seal("aes128gcm", z16, z12, b"", b""),
             H("58e2fccefa7e3061367f1d57a4e7455a"))
    check_eq("GCM TC2", P.aead_seal("aes128gcm", z16, z12, b"", z16),
             H("0388dace60b6a392f328c2b971b2fe78") + H("ab6e47d42cec13bdf53a67b21257bddf"))
    # extra vectors (not in the task list): GCM spec test cases 3, 4, 13, 14
    K = H("feffe9928665731c6d6a8f9467308308")
    IV = H("cafebabefacedbaddecaf888")
    PT = H("d9313225f88406e5a55909c5aff5269a86a7a9531534f7da2e4c303d8a318a72"
           "1c3c0c95956809532fcf0e2449a6b525b16aedf5aa0de657ba637b391aafd255")
    CT = H("42831ec2217774244b7221b784d0d49ce3aa212f2c02a4e035c17e2329aca12e"
           "21d514b25466931c7d8f6a5aac84aa051ba30b396a0aac973d58e091473f5985")
    check_eq("GCM TC3", P.aead_seal("aes128gcm", K, IV, b"", PT),
             CT + H("4d5c2af327cd64a62cf35abd2ba6fab4"))
    check_eq("GCM TC4", P.aead_seal("aes128gcm", K, IV,
                                    H("feedfacedeadbeeffeedfacedeadbeefabaddad2"), PT[:60]),
             CT[:60] + H("5bc94fbc3221a5db94fae95ae7121a47"))
    check_eq("GCM TC13", P.aead_seal("aes256gcm", bytes(32), z12, b"", b""),
             H("530f8afbc74536b9a963b4f1c4cb738b"))
    check_eq("GCM TC14", P.aead_seal("aes256gcm", bytes(32), z12, b"", z16),
             H("cea7403d4d606b6e074ec5d3baf39d18") + H("d0d1c8a799996bf0265b98b5d48ab919"))
    # RFC 9180 A.1.1 (as a primitive-level check only)
    k = H("4531685d41d65f03dc48f6b8302c05b0")
    pt = H("4265617574792069732074727574682c20747275746820626561757479")
    check_eq("RFC9180 A.1.1 seq 0",
             P.aead_seal("aes128gcm", k, H("56d890e5accaaf011cff4b7d"), b"Count-0", pt),
             H("f938558b5d72f1a23810b4be2ab4f84331acc02fc97babc53a52ae8218a355a9"
               "6d8770ac83d07bea87e13c512a"))
    check_eq("RFC9180 A.1.1 seq 1",
             P.aead_seal("aes128gcm", k, H("56d890e5accaaf011cff4b7c"), b"Count-1", pt),
             H("af2d7e9ac9ae7e270f46ba1f975be53c09f8d875bdc8535458c2494e8a6eab25"
               "1c03d0c22a56b8ca42c2063b84"))

    # GF(2^128): table-driven GHASH (both variants) vs bit-wise multiplication
    for _ in range(4):
        x, y = rng.getrandbits(128), rng.getrandbits(128)
        check("gf128 bitwise mult agrees with reference", P._gcm_mult_bitwise(x, y) == ref_gf128_mul(x, y))
    check("gf128: 1 is the identity (1 = 0x80..00)", ref_gf128_mul(1 << 127, 12345) == 12345)
    gk = P._GcmKey(rng.randbytes(16))
    data = rng.randbytes(16 * 9)
    check("GHASH 8-bit table (Horner) vs bit-wise", gk.big is None and
          P._ghash(gk, data) == ref_ghash(gk.h, data))
    gk.build_big()
    check("GHASH 16x256 position tables vs bit-wise", P._ghash(gk, data) == ref_ghash(gk.h, data))
    check("GHASH of nothing is 0", P._ghash(gk, b"") == 0)

    # full GCM vs the bit-/byte-wise reference, all short lengths
    for aead, klen in (("aes128gcm", 16), ("aes256gcm", 32)):
        for n in list(range(0, 35)) + [47, 48, 49, 255, 256, 257]:
            k = rng.randbytes(klen)
            nonce = rng.randbytes(12)
            aad = rng.randbytes(rng.choice([0, 1, 7, 15, 16, 17, 40]))
            pt = rng.randbytes(n)
            if n < 35 or aead == "aes128gcm":
                check_eq("%s vs reference GCM, %d bytes" % (aead, n),
                         P.aead_seal(aead, k, nonce, aad, pt), ref_gcm_seal(k, nonce, aad, pt))
    # counter wrap (inc32): nonce irrelevant, but force ctr near 2^32 internally
    gk = P._gcm_key(bytes(range(16)))
    ks = P._gcm_ctr_keystream(gk, 1, 2, 3, 0xFFFFFFFF, 2)
    check_eq("CTR inc32 wraps mod 2^32", ks,
             ref_aes_encrypt(bytes(range(16)), struct.pack(">4I", 1, 2, 3, 0xFFFFFFFF)) +
             ref_aes_encrypt(bytes(range(16)), struct.pack(">4I", 1, 2, 3, 0)))

    # one key, many messages: crossing the lazy big-table threshold must not
    # change any output
    P._gcm_key.cache_clear()
    k = rng.randbytes(16)
    msgs = [(rng.randbytes(12), rng.randbytes(5), rng.randbytes(1500)) for _ in range(8)]
    first = [P.aead_seal("aes128gcm", k, n, a, m) for n, a, m in msgs]
    check("lazy GHASH table was built", P._gcm_key(k).big is not None)
    again = [P.aead_seal("aes128gcm", k, n, a, m) for n, a, m in msgs]
    P._gcm_key.cache_clear()
    fresh = []
    for n, a, m in reversed(msgs):
        fresh.append(P.aead_seal("aes128gcm", k, n, a, m))
    fresh.reverse()
    check("outputs independent of key-cache state", first == again == fresh)
    check_eq("1500-byte message vs reference GCM", first[0], ref_gcm_seal(k, *msgs[0]))


def test_chacha(rng):
    # RFC 8439 section 2.3.2 (extra), 2.5.2 (extra), 2.8.2
    blk = H("10f1e7e4d13b5915500fdd1fa32071c4c7d1f4c733c068030422aa9ac3d46c4e"
            "d2826446079faa0914c2d705d98b02a2b5129cd1de164eb9cbd083e8a2503c4e")
    check_eq("RFC8439 2.3.2 block", P._chacha20_blocks(bytes(range(32)), 1,
                                                       H("000000090000004a00000000"), 1), blk)
    check_eq("RFC8439 2.3.2 block (reference)",
             ref_chacha20_block(bytes(range(32)), 1, H("000000090000004a00000000")), blk)
    check_eq("RFC8439 2.5.2 poly1305",
             P._poly1305(H("85d6be7857556d337f4452fe42d506a80103808afb0db2fd4abff6af4149f51b"),
                         b"Cryptographic Forum Research Group"),
             H("a8061dc1305136c6c22b8baf0c0127a9"))
    key = bytes(range(0x80, 0xA0))
    nonce = H("070000004041424344454647")
    aad = H("50515253c0c1c2c3c4c5c6c7")
    pt = (b"Ladies and Gentlemen of the class of '99: If I could offer you only one "
          b"tip for the future, sunscreen would be it.")
    out = P.aead_seal("chacha20poly1305", key, nonce, aad, pt)
    check_eq("RFC8439 2.8.2 length", len(out), len(pt) + 16)
    check_eq("RFC8439 2.8.2 ciphertext prefix", out[:16], H("d31a8d34648e60db7b86afbc53ef7ec2"))
    check_eq("RFC8439 2.8.2 tag", out[-16:], H("1ae10b594f09e26a7e902ecbd0600691"))
    check_eq("RFC8439 2.8.2 full ciphertext", out[:-16], H(
        "d31a8d34648e60db7b86afbc53ef7ec2a4aded51296e08fea9e2b5a736ee62d6"
        "3dbea45e8ca9671282fafb69da92728b1a71de0a9e060b2905d6a5b67ecd3b36"
        "92ddbd7f2d778b8c9803aee328091b58fab324e4fad675945585808b4831d7bc"
        "3ff4def08e4b7a9de576d26586cec64b6116"))
    check_eq("RFC8439 2.8.2 open", P.aead_open("chacha20poly1305", key, nonce, aad, out), pt)
    for _ in range(4):
        k = rng.randbytes(32)
        n = rng.randbytes(12)
        c0 = rng.choice([0, 1, 7, 0xFFFFFFFD])
        got = P._chacha20_blocks(k, c0, n, 3)
        want = b"".join(ref_chacha20_block(k, c0 + i, n) for i in range(3))
        check_eq("unrolled ChaCha20 vs list-based reference", got, want)
    check("chacha20 counter overflow raises",
          raises(ValueError, P._chacha20_blocks, bytes(32), 0xFFFFFFFF, bytes(12), 2))
    # composition vs reference pieces for assorted lengths
    for n in (0, 1, 15, 16, 17, 63, 64, 65, 127, 128, 129, 300):
        k = rng.randbytes(32)
        nonce = rng.randbytes(12)
        aad = rng.randbytes(rng.choice([0, 3, 16, 33]))
        pt = rng.randbytes(n)
        ks = b"".join(ref_chacha20_block(k, 1 + i, nonce) for i in range((n + 63) // 64))
        ct = bytes(a ^ b for a, b in zip(pt, ks))
        mac = aad + bytes(-len(aad) % 16) + ct + bytes(-len(ct) % 16) + \
            struct.pack("<QQ", len(aad), len(ct))
        tag = P._poly1305(ref_chacha20_block(k, 0, nonce)[:32], mac)
        check_eq("chacha20poly1305 composition, %d bytes" % n,
                 P.aead_seal("chacha20poly1305", k, nonce, aad, pt), ct + tag)
    # Poly1305 arithmetic corner: all-ones blocks with maximal r (mod 2^130-5
    # reduction and the final mod 2^128), checked against direct big-int math
    k = b"\xff" * 32
    m = b"\xff" * 48
    r = int.from_bytes(k[:16], "little") & 0x0FFFFFFC0FFFFFFC0FFFFFFC0FFFFFFF
    acc = 0
    for i in range(3):
        acc = (acc + (1 << 128) + (1 << 128) - 1) * r % (2**130 - 5)
    check_eq("poly1305 corner", P._poly1305(k, m),
             ((acc + (1 << 128) - 1) % (1 << 128)).to_bytes(16, "little"))


def test_aead_open(rng):
    for aead, klen in P.AEAD_NK.items():
        for n in (0, 1, 16, 31, 64, 100, 1000):
            k = rng.randbytes(klen)
            nonce = rng.randbytes(12)
            aad = rng.randbytes(rng.choice([0, 5, 16, 29]))
            pt = rng.randbytes(n)
            ct = P.aead_seal(aead, k, nonce, aad, pt)
            check("%s length %d" % (aead, n), len(ct) == n + 16)
            check_eq("%s round trip %d" % (aead, n), P.aead_open(aead, k, nonce, aad, ct), pt)
            # flip one bit anywhere (ciphertext body or tag)
            pos = rng.randrange(len(ct))
            bad = bytearray(ct)
            bad[pos] ^= 1 << rng.randrange(8)
            check("%s rejects flipped bit at %d/%d" % (aead, pos, len(ct)),
                  P.aead_open(aead, k, nonce, aad, bytes(bad)) is None)
            bad = bytearray(ct)
            bad[-1] ^= 0x80
            check("%s rejects flipped tag bit" % aead, P.aead_open(aead, k, nonce, aad, bytes(bad)) is None)
            if n:
                bad = bytearray(ct)
                bad[0] ^= 1
                check("%s rejects flipped ct bit" % aead,
                      P.aead_open(aead, k, nonce, aad, bytes(bad)) is None)
            check("%s rejects other aad" % aead, P.aead_open(aead, k, nonce, aad + b"\x00", ct) is None)
            n2 = bytearray(nonce)
            n2[11] ^= 1
            check("%s rejects other nonce" % aead, P.aead_open(aead, k, bytes(n2), aad, ct) is None)
            k2 = bytearray(k)
            k2[0] ^= 1
            check("%s rejects other key" % aead, P.aead_open(aead, bytes(k2), nonce, aad, ct) is None)
            check("%s rejects truncation" % aead, P.aead_open(aead, k, nonce, aad, ct[:-1]) is None)
            check("%s rejects extension" % aead, P.aead_open(aead, k, nonce, aad, ct + b"\x00") is None)
        check("%s open of < 16 bytes is None" % aead,
              P.aead_open(aead, bytes(klen), bytes(12), b"", bytes(15)) is None and
              P.aead_open(aead, bytes(klen), bytes(12), b"", b"") is None)
        check("%s bad key / nonce length raises" % aead,
              raises(ValueError, P.aead_seal, aead, bytes(klen - 1), bytes(12), b"", b"") and
              raises(ValueError, P.aead_seal, aead, bytes(klen), bytes(11), b"", b"") and
              raises(ValueError, P.aead_open, aead, bytes(klen), bytes(13), b"", bytes(16)))
        # a longer message (for GCM this also runs on the big GHASH tables)
        k = rng.randbytes(klen)
        pt = rng.randbytes(20000)
        ct = P.aead_seal(aead, k, bytes(12), b"hdr", pt)
        check("%s 20000-byte round trip" % aead, P.aead_open(aead, k, bytes(12), b"hdr", ct) == pt)
    check("aes128gcm key is not accepted as aes256gcm key",
          raises(ValueError, P.aead_seal, "aes256gcm", bytes(16), bytes(12), b"", b""))
    check("unknown aead raises", raises(ValueError, P.aead_seal, "aes192gcm", bytes(24), bytes(12), b"", b""))


def bench():
    rng = random.Random(2024)
    msg = rng.randbytes(65536)
    print("-- AEAD, 64 KiB message (key setup included; best of 3)")
    for aead, klen in P.AEAD_NK.items():
        bs, bo = 1e9, 1e9
        for _ in range(3):
            k = rng.randbytes(klen)
            n = rng.randbytes(12)
            t = time.perf_counter()
            ct = P.aead_seal(aead, k, n, b"aad", msg)
            bs = min(bs, time.perf_counter() - t)
            t = time.perf_counter()
            pt = P.aead_open(aead, k, n, b"aad", ct)
            bo = min(bo, time.perf_counter() - t)
            assert pt == msg
        print("%-18s seal %.3f us/byte   open %.3f us/byte" % (aead, bs * 1e6 / 65536, bo * 1e6 / 65536))
    print("-- AEAD, 32-byte message under a fresh key each time")
    for aead, klen in P.AEAD_NK.items():
        keys = [rng.randbytes(klen) for _ in range(300)]
        t = time.perf_counter()
        for k in keys:
            P.aead_seal(aead, k, bytes(12), b"aad", msg[:32])
        print("%-18s %.3f ms per seal" % (aead, (time.perf_counter() - t) * 1e3 / len(keys)))
    t = time.perf_counter()
    for _ in range(300):
        P._GcmKey(rng.randbytes(16))
    dt = (time.perf_counter() - t) * 1e3 / 300
    gk = P._GcmKey(rng.randbytes(16))
    t = time.perf_counter()
    gk.build_big()
    print("AES-GCM key setup  %.3f ms (+ %.3f ms lazily after %d bytes under one key)"
          % (dt, (time.perf_counter() - t) * 1e3, P._GHASH_BIG_THRESHOLD))
    print("-- key agreement")
    ks = [(rng.randbytes(32), rng.randbytes(32)) for _ in range(100)]
    t = time.perf_counter()
    for k, u in ks:
        P.x25519(k, u)
    print("x25519             %.3f ms" % ((time.perf_counter() - t) * 1e3 / len(ks)))
    for name, c in P.CURVES.items():
        Q = P.nist_random_point(c, rng)
        sc = [rng.randrange(c.n) for _ in range(40)]
        t = time.perf_counter()
        for k in sc:
            P.nist_scalar_mult(c, k, Q)
        print("%s scalar mult   %.3f ms" % (name, (time.perf_counter() - t) * 1e3 / len(sc)))
    prk = rng.randbytes(32)
    t = time.perf_counter()
    for i in range(2000):
        P.hkdf_expand("sha256", prk, b"info", 32)
    print("hkdf_expand(32)    %.4f ms" % ((time.perf_counter() - t) * 1e3 / 2000))


def main():
    t0 = time.perf_counter()
    rng = random.Random(0x9180)
    for fn in (test_hkdf, test_x25519, test_nist_constants, test_nist_arith,
               test_nist_special_cases, test_nist_keys,
               test_aes, test_gcm, test_chacha, test_aead_open):
        try:
            fn(rng)
        except Exception as e:                                   # a crash is a failure
            import traceback
            traceback.print_exc()
            _failures.append("%s crashed: %r" % (fn.__name__, e))
    dt = time.perf_counter() - t0
    if _failures:
        print("oracle selftest: FAIL (%d of %d checks failed, %.2f s)" % (len(_failures), _count, dt))
        for f in _failures:
            print("  FAIL " + f)
        return 1
    print("oracle selftest: OK (%d checks, %.2f s; %d input(s) from the task statement are "
          "mistyped as given and kept as known mismatches: %s)"
          % (_count, dt, len(_known_mistyped), "; ".join(_known_mistyped)))
    if "--bench" in sys.argv[1:]:
        bench()
    return 0


if __name__ == "__main__":
    sys.exit(main())
