#!/usr/bin/env python3
"""Writes /verif/MANIFEST.json from the table below (one source of truth for the interface)."""
import json, os
V = os.path.dirname(os.path.dirname(os.path.abspath(__file__)))
props = [json.loads(l)["id"] for l in open(os.path.join(V, "properties.jsonl"))]

TRUST = ("TLC 1.8 and the JVM; the TLA+ specification spec/*.tla (anchored to RFC 9180 Appendix A by driver/anchor.py); "
         "the pure-Python primitive oracle (pinned by published vectors, oracle/selftest.py); the ~2000-line Rust executor, "
         "which contains no HPKE logic; the guarded hooks in /repo (cfg hpke_verif)")

CHECKS = {
 "C04": dict(cat="model_checking", tech="TLA+ spec (MC_Seq) model-checked by TLC; every seal transition of the bounded model replayed on the real code through the counter/raw-context hooks, ciphertext body compared with the oracle-evaluated term AEAD(key, base_nonce XOR be64(seq))",
   text="TLC checks NonceIsXor, NoncesDistinct, ConsecutiveSeqs, AdvanceByOne, DeadAfterLimit, LiveBeforeLimit, Latch, Monotone exhaustively on the counter model (carry-boundary start set incl. 2^64-2, 2^64-1 and the latched state, <=4 seals, both forms). Conformance: each generated seal transition (x 3 AEADs x 4 base-nonce patterns) is one implementation test: result kind, error variant, (seq, overflowed) after the call, buffer identity on refusal and the exact ciphertext body; plus all seal histories from 0 through the public API only.",
   ref="5 (C04), 4.2, 4.5"),
 "C05": dict(cat="model_checking", tech="TLA+ spec with an ideal-AEAD receiver and an adversarial delivery menu, model-checked by TLC; every open transition replayed on the real code (pattern mode), plus random walks of the model from position 0",
   text="TLC checks AcceptsOnlySealed, VerbatimDecision (completeness: the in-sequence message IS accepted), TamperedRejected, FailureIsStutter, RcvdInOrder, AdvanceByOne, DeadAfterLimit, Latch, Monotone over all interleavings of <=3 seals and <=2-3 adversarial deliveries from the menu (verbatim/replay/future/cross-context, flips, truncations, extensions, substitutions, short, garbage), receiver positions from the carry-boundary set incl. the latched state. Conformance: every open transition is an implementation test (deliveries are byte surgery on the implementation's own ciphertexts), counter state compared after every call.",
   ref="5 (C05), 4.2, 4.5"),
}
NA_REASON = "check not built yet (construction in progress, see DESIGN.md section 12)"

m = {"version": 1, "setup_cmd": "./setup.sh",
     "hooks": {"guard": "hpke_verif",
               "enable": "rustflags --cfg hpke_verif in /verif/executor/.cargo/config.toml (the executor is a separate crate with a path dependency on /repo)",
               "baseline_off_cmd": "cd /repo && cargo test --workspace --no-fail-fast --offline",
               "source_commits": ["e2e48e5", "c1f3f0e"], "add_only": True},
     "engines": [{"name": "tlc+replay", "path": "/verif/check", "serves_properties": sorted(CHECKS),
                  "kind_free_text": "explicit TLA+ specification (spec/), TLC model checking, spec->impl replay of TLC-generated transitions/behaviours through a Rust executor, impl->spec trace validation"}],
     "checks": [], "notes": "see DESIGN.md; known findings in known_findings.json",
     "not_applicable": []}
import subprocess
hooks = subprocess.run(["git", "-C", "/repo", "log", "--format=%h %s"], capture_output=True, text=True).stdout.split("\n")
m["hooks"]["source_commits"] = [l.split()[0] for l in hooks if l and "verif hooks" in l]
for p in props:
    if p in CHECKS:
        c = CHECKS[p]
        m["checks"].append({"property_id": p, "quick_cmd": "./check %s quick" % p, "thorough_cmd": "./check %s thorough" % p,
            "evidence_file": "/verif/evidence/%s.json" % p, "replay_cmd_template": "./check %s --replay {path}" % p,
            "engine": "tlc+replay",
            "level_claimed": {"category": c["cat"], "text": c["text"], "design_ref": c["ref"]},
            "level_note": c.get("note", TRUST), "technique": c["tech"]})
    else:
        m["not_applicable"].append({"property_id": p, "reason": NA_REASON})
json.dump(m, open(os.path.join(V, "MANIFEST.json"), "w"), indent=1)
print("checks:", len(m["checks"]), "n/a:", len(m["not_applicable"]))
