#!/usr/bin/env python3
"""Writes /verif/MANIFEST.json from the table below (one source of truth for the interface)."""
import json, os
V = os.path.dirname(os.path.dirname(os.path.abspath(__file__)))
props = [json.loads(l)["id"] for l in open(os.path.join(V, "properties.jsonl"))]

TRUST = ("TLC 1.8 and the JVM; the TLA+ specification spec/*.tla (anchored to RFC 9180 Appendix A by driver/anchor.py); "
         "the pure-Python primitive oracle (pinned by published vectors, oracle/selftest.py); the ~2000-line Rust executor, "
         "which contains no HPKE logic; the guarded hooks in /repo (cfg hpke_verif)")

MC = "model_checking"
CHECKS = {
 "C01": dict(cat=MC, tech="TLA+ spec (Hpke.tla / MC_Setup, MC_Seq) model-checked by TLC; every transition of the matching-pair model replayed on the real code in pattern mode (equality pattern of predicted terms, returned plaintexts, lengths)",
   text="TLC checks Binding (agreeing parameters => identical key material, through the DH commutativity law), VerbatimDecision, AcceptsOnlySealed, RcvdInOrder, CtLen on the setup model (4 KEMs x 3 KDFs x 3 AEADs x 4 modes). Conformance: every generated transition (setup_s, setup_r, seal and open in both forms, in- and out-of-order delivery of <=3 messages) is one implementation test whose pre-state is re-created through the public API; plus in-order sessions over plaintext/aad sizes straddling the block sizes.",
   ref="5 (C01)"),
 "C02": dict(cat=MC, tech="TLA+ spec of RFC 9180 with symbolic byte strings; every transition of the setup model for all 48 suites x 4 modes replayed on the real code in exact mode: each returned byte must equal the oracle's evaluation of the specification's term",
   text="The specification's terms (labels, suite ids, orderings, length prefixes, DeriveKeyPair, nonce computation - all in TLA+) are evaluated by a pure-Python primitive oracle and compared byte for byte with enc, every ciphertext (both forms), every export and the single-shot outputs; in the receiver direction the encapsulated key and ciphertexts handed to the real receiver are computed by the oracle. The transcription is anchored to RFC 9180 A.1.1, A.1.2, A.1.3, A.2.1, A.3.1 (50 published values reproduced from the spec's own terms on every run). Also: every length 0..140/300 of info, psk, psk_id; RNG outputs that take the DeriveKeyPair rejection branch; counter jumps on real-setup contexts; random sessions validated as traces with exact obligations.",
   ref="5 (C02), 4.4"),
 "C03": dict(cat=MC, tech="TLA+ DHKEM spec (HpkeKem.tla / MC_Kem): spec-level EncapDecapAgree / PkOfSk / GenIsDerive evaluated by TLC, every enumerated call replayed in exact mode against the oracle-evaluated terms",
   text="derive_keypair over ikm length classes and seeded values, gen_keypair (first Nsk RNG bytes, spare bytes undrawn), sk_to_pk, encap/decap plain and authenticated for all role assignments x 4 KEMs: every returned byte equals the oracle's evaluation of the RFC 9180 term (X25519 private keys up to clamping); every ikm length 0..140/300; P-256 inputs that take the rejection branch of the candidate loop.",
   ref="5 (C03)"),
 "C04": dict(cat=MC, tech="TLA+ spec (MC_Seq) model-checked by TLC; every seal transition of the bounded model replayed on the real code through the counter/raw-context hooks, ciphertext body compared with the oracle-evaluated term AEAD(key, base_nonce XOR be64(seq))",
   text="TLC checks NonceIsXor, NoncesDistinct, ConsecutiveSeqs, AdvanceByOne, DeadAfterLimit, LiveBeforeLimit, Latch, Monotone exhaustively on the counter model (carry-boundary start set incl. 2^64-2, 2^64-1 and the latched state, <=4 seals, both forms). Conformance: each generated seal transition (x 3 AEADs x 4 base-nonce patterns) is one implementation test: result kind, error variant, (seq, overflowed) after the call, buffer identity on refusal and the exact ciphertext body; plus all seal histories from 0 through the public API only, the failing-seal path (SealError on a lazily mapped 2^36+1 / 2^38-byte plaintext: nothing may change), and an unbounded Apalache inductive proof that the 64-bit counter never reuses a number.",
   ref="5 (C04), 4.2, 4.5"),
 "C05": dict(cat=MC, tech="TLA+ spec with an ideal-AEAD receiver and an adversarial delivery menu, model-checked by TLC; every open transition replayed on the real code (pattern mode), plus random walks of the model from position 0",
   text="TLC checks AcceptsOnlySealed, VerbatimDecision (completeness: the in-sequence message IS accepted), TamperedRejected, FailureIsStutter, RcvdInOrder, AdvanceByOne, DeadAfterLimit, Latch, Monotone over all interleavings of <=3 seals and <=2-3 adversarial deliveries from the menu (verbatim/replay/future/cross-context, flips, truncations, extensions, substitutions, short, garbage), receiver positions from the carry-boundary set incl. the latched state. Conformance: every open transition is an implementation test (deliveries are byte surgery on the implementation's own ciphertexts), counter state compared after every call; cross-position models (sender at 0, receiver at 2^j for every j) so that every bit of the position matters; random adversarial schedules with counter jumps anywhere in 0..2^64-1 validated by TLC against spec/HpkeTrace.tla.",
   ref="5 (C05), 4.2, 4.5"),
 "C06": dict(cat=MC, tech="TLA+ spec: TLC enumerates every single-bit flip of ciphertext, tag and aad, every truncation/extension, every substitution as delivery arguments; each case replayed on the real code through all opening interfaces (pattern mode) with positive controls",
   text="TamperedRejected / VerbatimDecision / AcceptsOnlySealed hold on the model for every enumerated modification; conformance: each case is applied to the implementation's own ciphertext/tag/aad and must give OpenError with unchanged counter, while the unmodified in-sequence message is accepted in the same run; also with the receiver at 2^32-1 / 2^64-2 / 2^64-1 / latched, with 70000- and 65537-byte aad (modifications around 255/256 and 65535/65536), with bytes appended to the detached tag, and a seeded sweep of tag-only messages cut below the tag length; single-shot opening interfaces are covered by the C14 model runs (modified deliveries).",
   ref="5 (C06)"),
 "C07": dict(cat=MC, tech="Dolev-Yao style search by TLC over the symbolic key schedule (concrete strings over {00,61}: boundary shifts, empty vs zero byte) for Binding/NoSharedPart; every (sender, perturbed receiver) transition replayed in pattern mode",
   text="TLC: a sender and a receiver share key material iff their parameters agree, and share none of key/nonce/exporter otherwise (all single-component perturbations + boundary shifts, 4 modes, suites incl. AES-256-GCM vs ChaCha20Poly1305). Conformance: the perturbed receiver must reject the sender's ciphertexts and every export must differ between the two sides (controls: the matching receiver of the same model); byte level: every bit of short and every bit of the boundary bytes (16/32/48/64/128, last) of 160-byte info, psk, psk_id, appended/prepended zero bytes, other encodings / lengths of the encapsulated key; random sessions with one differing receiver argument validated as traces.",
   ref="5 (C07)"),
 "C08": dict(cat=MC, tech="TLC checks AuthSound/PskSound on the symbolic DHKEM + key schedule with impostor senders; every transition replayed in pattern mode",
   text="Impostors (foreign identity pair, honest pkS paired with a foreign private key, non-authenticated mode, wrong PSK incl. every PSK bit) against a receiver expecting pkS / the PSK: ciphertexts rejected, exports differ; the honest sender is accepted in the same model (4 KEMs x {Psk, Auth, AuthPsk}).",
   ref="5 (C08)"),
 "C09": dict(cat=MC, tech="decision table in TLA+ (HpkeCodec.tla) enumerated by TLC over adversarial input recipes the oracle constructs and classifies independently; every case replayed (exact result incl. error payload, canonical re-serialisation)",
   text="3 curves x {public, encapsulated, private key} x every leading byte x {valid, negated, y+1, invalid-curve, twist, (0,0), swapped, x+p and y+p non-canonical encodings of valid points, coordinates = p / all-ones, compressed/hybrid, prefixes/extensions} and scalars {0,1,mid,n-1,n,n+1,n+r,max, P-521 bits 520/521/527}, plus seeded random strings: from_bytes must return exactly the table's value.",
   ref="5 (C09)"),
 "C10": dict(cat=MC, tech="TLA+ spec: DH fails exactly for the 14 small-order encodings (literals in HpkeKem.tla); TLC enumerates role x mode x interface and asserts SmallOrderRefused/OnlySmallOrderRefused/NoCtxOnFailure; every transition replayed",
   text="Each of the 14 encodings as recipient key (sender side), encapsulated key and sender identity key (receiver side) x 4 modes x {setup, single-shot, Kem::encap/decap}: EncapError / DecapError and no context; 5 other raw 32-byte strings (incl. non-canonical) must be accepted.",
   ref="5 (C10)"),
 "C11": dict(cat=MC, tech="TLA+ spec: ExportIsPure asserted on every transition by TLC; export transitions replayed in exact mode on hook-built contexts (value, bound) and in pattern mode on real setups of both roles (purity, symmetry, history independence)",
   text="Exports for exporter-context classes x lengths {0,1,16,Nh-1,Nh,Nh+1,255Nh-1,255Nh,255Nh+1,65535,65536,70000} x 3 KDFs, from every reachable state of the bounded model (before/after seals, opens, refusals, at the latch); export-only suites export the same way and their seal/open panic; thorough sweeps every L in 0..65599.",
   ref="5 (C11)"),
 "C12": dict(cat=MC, tech="size / round-trip / write_exact decision tables in TLA+ (HpkeCodec.tla) enumerated by TLC; every case replayed in exact mode",
   text="4 KEMs x {public, private, encapsulated key} + 4 tag types: size(), from_bytes(to_bytes(v)) = v, write_exact into every buffer length 0..2*size+2 (panic iff length differs), from_bytes of every input length 0..2*size+2 with IncorrectInputLength(expected, given) (both sweeps also at size + 256, 512, 768, 65536, 131072), canonical re-serialisation of accepted encodings.",
   ref="5 (C12)"),
 "C13": dict(cat=MC, tech="the specification's result alphabet contains no panic for byte-consuming entry points (asserted by TLC); TLC enumerates entry point x length class, each replayed on an executor built with overflow checks",
   text="Key/encapsulated-key/tag deserialisation, KDF helpers, DeriveKeyPair, setup (info/psk/psk_id of 0..70000 bytes), seal/open in both forms with arbitrary input of every length class, export with long contexts and lengths beyond 2^16: result must be the specification's value or error, never a panic; setup errors only EncapError/DecapError.",
   ref="5 (C13)"),
 "C14": dict(cat=MC, tech="single-shot and allocating forms are DEFINED in TLA+ as compositions of the step operators; conformance of both forms in pattern mode (equal terms must be equal bytes: twin senders with identical RNG scripts, single-shot next to setup+call)",
   text="single_shot_seal/open (both forms) vs setup + one seal/open with the identical RNG script, twin senders sealing the same message in allocating and detached form; failure paths: small-order keys, wrong recipient key, flipped ciphertext/tag/aad, truncated below a tag.",
   ref="5 (C14)"),
 "C15": dict(cat=MC, tech="PskBundleNew decision table in TLA+ enumerated by TLC and replayed; key-schedule wiring of the bundle decided by hypothesis discrimination against mis-wired schedules defined in the spec",
   text="Constructor: all pairs of lengths {0,1,2,31,32,33,64,1000}^2. Wiring: the observed export of PSK-mode contexts equals the RFC wiring's value and none of the mis-wirings (swap, dropped, duplicated); a match with a mis-wiring is the violation, a match with nothing is inconclusive.",
   ref="5 (C15)"),
 "C16": dict(cat=MC, tech="trace validation: the executor's life-cycle event log (drop-ledger deltas, memory scans around drop_in_place) is checked by TLC against the trace specification spec/HpkeLifecycle.tla",
   text="One trace over (suites x roles) hook-built contexts with known secrets and (suites x 4 modes x both roles) real setups plus every KEM shared secret; accepted iff no buffer is ever dropped dirty, every successful setup drops the temporary AEAD key and the shared secret clean, and what a scan found before a drop is gone after it.",
   ref="5 (C16)"),
 "C17": dict(cat="exploration", tech="feature lattice in TLA+ (HpkeFeatures.tla: 64 subsets x guard with the expected API surface, Monotone/SurfaceRule checked by TLC); each subset 'replayed' as builds: crate check, positive/negative surface probes, the crate's tests, scenario digests",
   text="Per subset: the crate compiles; a probe crate naming every expected item compiles and each absent item does not; the crate's tests pass (kat_test skipped: empty vector file in the snapshot); a scripted scenario per enabled KEM gives the outputs of the full feature set; examples and bench build. Quick: 12 subsets + 2 guard-on; thorough: all 128.",
   ref="5 (C17)"),
 "C18": dict(cat=MC, tech="TLA+ spec (MC_Par): TLC checks the frame condition and determinism over all interleavings of three sessions; TLC-generated schedules with thread placements executed on worker threads, then re-run with one concurrent thread per context; compile-time Send/Sync probe",
   text="Three sessions with equal parameters (other / same RNG script): per-session predictions are those of the session alone (pattern mode: same terms same bytes, different terms different bytes - exposes caches of ephemeral or derived material); contexts are moved between 3 threads; concurrent per-context re-execution and concurrent shared-reference exports must reproduce the sequential results; all public types are Send + Sync.",
   ref="5 (C18)"),
}
# what the build added to the plan (DESIGN 0.7), appended to the level text
ADD = {
 "C02": " Length sweeps of info / psk / psk_id: dense 0..140 (300), sparse to 700 (1200), and the lengths at which the hashed string reaches a multiple of 1024..8192.",
 "C03": " Special values: scalars 1, 2, n-1, valid points with leading-zero / zero abscissa, X25519 peer keys constructed so that the DH output has a chosen shape (words XORing to zero, zero halves, one non-zero byte), all-zero / all-0xff RNG draws; calls that differ in one argument back to back in one process; every authenticated encapsulation right before calls that use its sender private key.",
 "C04": " Long runs inside the executor: 2^20+ seals refused in a row by an exhausted sender, 2^20+ identical exports, 64 MiB (thorough: 4.2 GiB, past 2^32 bytes) sealed by one context; SealError path with a lazily mapped 2^36+ byte input; Apalache inductive proof of the 64-bit counter; the counter-boundary transitions also on an executor built without debug assertions and overflow checks.",
 "C05": " In every batch the rejected deliveries are made back to back on one state and the accepted delivery after them on the same state (closest relatives last); large-message variant; long runs: 2^20+2^16 consecutive rejections (thorough 2^24), then the genuine message, then 70 000 (2^20) messages in a row; boundary transitions also on an executor built without debug assertions.",
 "C07": " Last / second-to-last byte perturbed at every length 0..600 (1100) and at hashed-string boundaries; a trace in which sender and receiver differ in a pair of equal-length strings colliding under FNV-1/1a, CRC-32, Adler-32, djb2, sdbm, byte sum, XOR (seeded birthday search) or in long values differing in one middle bit.",
 "C11": " Exports asked again after refused / rejected calls on the same state (reverse order); exporter-context length 0..520 (1100) x {one block, several blocks} and around every power of two up to 2^16 in exact mode; long runs of identical exports.",
 "C12": " `==` on public and private keys: self, clone, another key, single-bit neighbours.",
 "C13": " Dense sweeps: every exporter-context length 0..700 (1100) and around 2^10..2^16, every info / psk / psk_id length 0..600 (1100) through both setups.",
 "C16": " The (panicking) seal / open of export-only contexts and drops of contexts while a caller's panic unwinds are part of the trace.",
 "C18": " Order independence: 16 session scripts (suites sharing two of three components, one sender identity per KEM) forward in the session process and backward in a fresh one; cross-suite concurrency stress (16 threads x 2500 repetitions, 3 x 16 x 10 000 setup-only repetitions) and cold starts (concurrent calls as the first calls of 4..24 fresh processes, every script on two threads); 65535 / 65534 contexts created and dropped between sessions; Send + Sync probe under all, default and no-alloc feature sets.",
}
for _k, _v in ADD.items():
    CHECKS[_k]["text"] += _v
NA_REASON = "check not built yet (construction in progress, see DESIGN.md section 12)"

m = {"version": 1, "setup_cmd": "./setup.sh",
     "hooks": {"guard": "hpke_verif",
               "enable": "rustflags --cfg hpke_verif in /verif/executor/.cargo/config.toml (the executor is a separate crate with a path dependency on /repo)",
               "baseline_off_cmd": "cd /repo && cargo test --workspace --no-fail-fast --offline",
               "source_commits": ["e2e48e5", "c1f3f0e"], "add_only": True},
     "engines": [{"name": "tlc+replay", "path": "/verif/check", "serves_properties": sorted(CHECKS),
                  "kind_free_text": "explicit TLA+ specification (spec/), TLC model checking, spec->impl replay of TLC-generated transitions/behaviours through a Rust executor, impl->spec trace validation"}],
     "checks": [], "notes": "see DESIGN.md; known findings in known_findings.json",
     "not_applicable": []}
import subprocess
hooks = subprocess.run(["git", "-C", "/repo", "log", "--format=%h %s"], capture_output=True, text=True).stdout.split("\n")
m["hooks"]["source_commits"] = [l.split()[0] for l in hooks if l and "verif hooks" in l]
for p in props:
    if p in CHECKS:
        c = CHECKS[p]
        m["checks"].append({"property_id": p, "quick_cmd": "./check %s quick" % p, "thorough_cmd": "./check %s thorough" % p,
            "evidence_file": "/verif/evidence/%s.json" % p, "replay_cmd_template": "./check %s --replay {path}" % p,
            "engine": "tlc+replay",
            "level_claimed": {"category": c["cat"], "text": c["text"], "design_ref": c["ref"]},
            "level_note": c.get("note", TRUST), "technique": c["tech"]})
    else:
        m["not_applicable"].append({"property_id": p, "reason": NA_REASON})
json.dump(m, open(os.path.join(V, "MANIFEST.json"), "w"), indent=1)
print("checks:", len(m["checks"]), "n/a:", len(m["not_applicable"]))
