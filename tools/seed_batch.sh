#!/bin/sh
# tools/seed_batch.sh PROP N CHECKS... : confirm seed N of property PROP (from /tmp/mut/out) and run the listed quick checks on it
p=$1; n=$2; shift; shift
echo "=== $p change$n"
/verif/tools/confirm_seed.sh /tmp/mut/$p /tmp/mut/out/$p/change$n.diff /tmp/mut/out/$p/demo$n.rs
/verif/tools/try_seed.sh /tmp/mut/out/$p/change$n.diff "$@"
