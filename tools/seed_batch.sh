#!/bin/sh
# tools/seed_batch.sh PROP N CHECKS... : confirm seed N of property PROP (from $ROOT/out, default /tmp/mut) and run the listed quick checks on it
ROOT=${ROOT:-/tmp/mut}
p=$1; n=$2; shift; shift
echo "=== $p change$n"
/verif/tools/confirm_seed.sh $ROOT/$p $ROOT/out/$p/change$n.diff $ROOT/out/$p/demo$n.rs
/verif/tools/try_seed.sh $ROOT/out/$p/change$n.diff "$@"
