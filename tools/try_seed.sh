#!/bin/sh
# tools/try_seed.sh DIFF PROP... : apply a seeded change to /repo, run the named quick checks, undo the change
diff=$1; shift
git -C /repo apply "$diff" || exit 1
for p in "$@"; do
  out=$(cd /verif && ./check $p ${TIER:-quick} 2>&1)
  rc=$?
  echo "$p rc=$rc $(echo "$out" | grep -E '^(OK|VIOLATION|TOOL-ERROR)' | head -1 | cut -c1-150)"
  echo "$out" | grep -A1 '^VIOLATION' | sed -n 2p | cut -c1-220
done
git -C /repo checkout -- .
