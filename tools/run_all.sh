#!/bin/sh
# tools/run_all.sh quick|thorough [jobs]: run every registered check, print one line per check, validate the evidence files
cd "$(dirname "$0")/.."
tier=${1:-quick}
jobs=${2:-3}
mkdir -p out/runall
ls evidence >/dev/null 2>&1 || mkdir evidence
python3 - "$tier" "$jobs" <<'PY'
import json, subprocess, sys, time, concurrent.futures as cf
tier, jobs = sys.argv[1], int(sys.argv[2])
ids = [c["property_id"] for c in json.load(open("MANIFEST.json"))["checks"]]
def run(p):
    t = time.time()
    r = subprocess.run(["./check", p, tier], stdout=subprocess.PIPE, stderr=subprocess.STDOUT, text=True)
    open("out/runall/%s.log" % p, "w").write(r.stdout)
    last = [l for l in r.stdout.strip().split("\n") if l.startswith(("OK", "VIOLATION", "TOOL-ERROR", "KNOWN"))]
    return p, r.returncode, time.time() - t, (last[-1] if last else r.stdout[-200:])
with cf.ThreadPoolExecutor(jobs) as ex:
    for p, rc, dt, line in ex.map(run, ids):
        print("%s rc=%d %.0fs %s" % (p, rc, dt, line[:160]), flush=True)
PY
python3-vt - <<'PY'
import json, jsonschema, glob
sch = json.load(open('/root/.vp/EVIDENCE.schema.json'))
for f in sorted(glob.glob('evidence/*.json')):
    try:
        jsonschema.validate(json.load(open(f)), sch)
    except Exception as e:
        print(f, 'INVALID', str(e)[:150])
print("evidence validated")
PY
