#!/bin/sh
# tools/confirm_seed.sh WORKTREE DIFF DEMO.rs : confirm that a seeded change compiles, passes the existing tests, and that
# its demonstration fails with the change and passes without.  Uses the demo's own header comment for features/flags.
wt=$1; diff=$2; demo=$3
feat=$(grep -o -- '--features [a-z0-9,]*' "$demo" | head -1)
flags=""
grep -q 'cfg hpke_verif' "$demo" && flags="--cfg hpke_verif"
name=$(basename "$demo" .rs)
git -C "$wt" checkout -q -- . && git -C "$wt" clean -fdq -e target
mkdir -p "$wt/tests" && cp "$demo" "$wt/tests/$name.rs"
cd "$wt"
clean=$(RUSTFLAGS="$flags" cargo test --offline $feat --test "$name" 2>&1 | grep "test result" | tail -1)
git apply "$diff" || { echo "APPLY-FAILED"; exit 1; }
build=$(cargo build --offline --all-features 2>&1 | tail -1)
suite=$(cargo test --offline 2>&1 | grep "test result" | head -1)
mut=$(RUSTFLAGS="$flags" cargo test --offline $feat --test "$name" 2>&1 | grep "test result" | tail -1)
git checkout -q -- . ; rm -rf tests
echo "feat='$feat' flags='$flags'"
echo "clean demo : $clean"
echo "build      : $build"
echo "suite      : $suite"
echo "mutant demo: $mut"
