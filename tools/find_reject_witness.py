#!/usr/bin/env python3
"""One-off search for DeriveKeyPair inputs that take the REJECTION branch of RFC 9180 7.1.3 on P-256 (candidate 0 >= order,
probability 2^-32 per ikm).  Usage: find_reject_witness.py PREFIX_HEX NPROC  -> prints ikm hex values as it finds them."""
import hashlib, hmac, sys, multiprocessing as mp
N = 0xffffffff00000000ffffffffffffffffbce6faada7179e84f3b9cac2fc632551
SID = b"KEM" + bytes([0, 16])
PRE = b"HPKE-v1" + SID + b"dkp_prk"
INFO = bytes([0, 32]) + b"HPKE-v1" + SID + b"candidate" + bytes([0]) + b"\x01"
def work(args):
    prefix, start, step = args
    base = hmac.new(b"", PRE + prefix, hashlib.sha256)
    i = start
    while True:
        h = base.copy(); h.update(i.to_bytes(8, "big")); prk = h.digest()
        c = hmac.new(prk, INFO, hashlib.sha256).digest()
        if c[:4] == b"\xff\xff\xff\xff" and (int.from_bytes(c, "big") >= N):
            print((prefix + i.to_bytes(8, "big")).hex(), flush=True)
        i += step
if __name__ == "__main__":
    prefix = bytes.fromhex(sys.argv[1]); n = int(sys.argv[2])
    ps = [mp.Process(target=work, args=((prefix, k, n),)) for k in range(n)]
    [p.start() for p in ps]; [p.join() for p in ps]
