#!/usr/bin/env python3
"""Copies the confirmed seeded changes from the sub-agents' scratch output (/tmp/mut/out) into /verif/seeded/<id>/
(patch.diff, the demonstration, meta.json).  The table below records what each change needs in order to manifest,
what was run to confirm it (tools/confirm_seed.sh) and which quick checks were run against it with which verdict."""
import json, os, shutil, sys
SRC = "/tmp/mut/out"
DST = "/verif/seeded"
CONFIRM = ("tools/confirm_seed.sh <scratch worktree> patch.diff demo: demonstration passes on the clean tree; with the patch the "
           "crate builds (--all-features), `cargo test --offline` still gives 35 passed, and the demonstration fails")
T = [
 # id, prop, n, summary, needs, results {check: verdict}
 ("C01-1", "C01", 1, "receiver's mode_id() returns the non-PSK mode byte when the PSK bundle is empty (sender unchanged)",
  "Psk / AuthPsk mode with an EMPTY bundle (accepted by PskBundle::new): sender and receiver then derive different keys",
  {"C01": "VIOLATION", "C07": "VIOLATION", "C02": "VIOLATION"}),
 ("C01-2", "C01", 2, "AeadCtxR::open length guard `<=` instead of `<`: a 16-byte ciphertext (sealed empty plaintext) is refused",
  "allocating open / single_shot_open of a message with EMPTY plaintext", {"C05": "VIOLATION", "C01": "VIOLATION"}),
 ("C02-1", "C02", 1, "gen_keypair sizes the ikm buffer by Nsecret instead of Nsk (differs only for P-521: 64 vs 66)",
  "optional p521 feature; scripted RNG; byte-exact comparison of enc (round trips still work)",
  {"C02": "VIOLATION", "C03": "VIOLATION", "C01": "OK (first alarm on `drawn` was a false alarm of C01, fixed: scalar outputs are compared in exact mode only)"}),
 ("C03-1", "C03", 1, "NIST DeriveKeyPair: candidate >= order is reduced mod n instead of rejected",
  "an ikm whose first candidate is >= the P-256 group order (2^-32 per ikm; witness found by exhaustive search)",
  {"C03": "VIOLATION (after adding rejection-branch witnesses to MC_Kem.tla; missed before)", "C02": "OK"}),
 ("C04-1", "C04", 1, "write_u64_be: mask typo loses bits 36..39 of the sequence number (nonce reuse from message 2^36)",
  "sequence numbers >= 2^36 (hook); sender and receiver share the bug", {"C04": "VIOLATION", "C05": "OK"}),
 ("C04-2", "C04", 2, "increment_seq latches one message early (2^64-1 can never be used)",
  "context at sequence number 2^64-2 (hook)", {"C04": "VIOLATION", "C05": "VIOLATION (the receiver shares increment_seq)"}),
 ("C05-2", "C05", 2, "open_in_place_detached sets the overflow latch before decrypting: a REJECTED open at 2^64-1 latches",
  "receiver at 2^64-1 (hook), a failing delivery before the genuine last message", {"C05": "VIOLATION", "C04": "OK"}),
 ("C06-1", "C06", 1, "open() zero-pads an input shorter than a tag instead of refusing it",
  "empty plaintext + tag ending in 0x00 (1 in 256) + exactly those bytes removed; allocating interface",
  {"C06": "VIOLATION (after adding the seeded short-truncation sweep; missed before)"}),
 ("C06-2", "C06", 2, "open_in_place_detached: wrong match-arm order accepts ANY ciphertext at sequence number 2^64-1",
  "receiver at 2^64-1 (hook)", {"C06": "VIOLATION (after adding boundary positions to C06; C05 caught it before)", "C05": "VIOLATION"}),
 ("C07-1", "C07", 1, "mode_id computed from bundle emptiness: Psk(empty) = Base, AuthPsk(empty) = Auth",
  "PSK mode with an empty bundle on one side, the non-PSK mode on the other", {"C07": "VIOLATION", "C01": "OK"}),
 ("C07-2", "C07", 2, "psk_id passed as HKDF salt instead of ikm in psk_id_hash (zero padding of HMAC keys collides ids)",
  "PSK modes; psk_id vs psk_id || 0x00", {"C07": "VIOLATION", "C02": "VIOLATION", "C01": "OK"}),
 ("C08-1", "C08", 1, "P-521 Auth: identity DH and pkSm silently dropped (buffer sized exactly + `>=` skip in write_to_buf)",
  "optional p521 feature, Auth/AuthPsk mode, impostor without skS", {"C08": "VIOLATION", "C02": "VIOLATION", "C01": "OK"}),
 ("C08-2", "C08", 2, "only the first 128 bytes of the PSK enter the key schedule",
  "PSK longer than 128 bytes, difference at byte index >= 128",
  {"C08": "VIOLATION (after adding 160-byte values and boundary-byte flips; missed before)", "C07": "VIOLATION", "C02": "OK (quick tier: 32-byte PSKs in exact mode)"}),
 ("C09-1", "C09", 1, "P-521 keygen bitmask moved into PrivateKey::from_bytes: scalars >= 2^521 accepted after masking",
  "optional p521 feature; 66-byte scalar with high bits set", {"C09": "VIOLATION", "C12": "OK at first, VIOLATION after C12 stopped filtering rejected inputs"}),
 ("C09-2", "C09", 2, "EncappedKey::from_bytes accepts over-long input and drops the tail",
  "encapsulated key longer than Nenc starting with a valid point", {"C09": "VIOLATION", "C12": "VIOLATION"}),
 ("C10-1", "C10", 1, "zero check replaced by a blacklist of 7 encodings that forgets to mask bit 255",
  "one of the 7 small-order encodings with the top bit set", {"C10": "VIOLATION", "C13": "VIOLATION"}),
 ("C10-2", "C10", 2, "AuthDecap: identity-DH error swallowed by .ok(), falls through to the unauthenticated branch",
  "receiver, Auth/AuthPsk, small-order sender identity key, valid encapsulated key", {"C10": "VIOLATION"}),
 ("C11-1", "C11", 1, "labeled_expand refuses exactly 255*Nh bytes (off-by-one block count)",
  "export length exactly 8160 / 12240 / 16320", {"C11": "VIOLATION"}),
 ("C11-2", "C11", 2, "exporter secret (and base nonce) wiped when the message at 2^64-1 is processed",
  "successful seal/open at 2^64-1 (hook), then export", {"C11": "VIOLATION", "C04": "OK"}),
 ("C12-2", "C12", 2, "X25519 from_bytes: IncorrectInputLength payload swapped (given, expected)",
  "wrong-length X25519 key and a caller that reads the payload", {"C12": "VIOLATION"}),
 ("C13-1", "C13", 1, "AuthDecap maps a failing identity DH to EncapError instead of DecapError",
  "X25519, Auth/AuthPsk receiver, small-order sender identity key", {"C13": "VIOLATION (after adding small-order keys to C13; C10 caught it before)", "C10": "VIOLATION"}),
 ("C13-2", "C13", 2, "NIST PublicKey::from_bytes reads encoded[0] before the length check: panics on empty input",
  "NIST KEM, input of length exactly 0", {"C13": "VIOLATION", "C09": "VIOLATION"}),
 ("C14-2", "C14", 2, "single_shot_open refuses a ciphertext shorter than a tag BEFORE decapsulation (OpenError instead of DecapError)",
  "small-order encapsulated key AND a ciphertext of 0..15 bytes together", {"C14": "VIOLATION", "C10": "OK"}),
 ("C15-1", "C15", 1, "PskBundle::new decides presence by 'any non-zero byte' instead of non-emptiness",
  "an all-zero PSK", {"C15": "VIOLATION (after adding all-zero / all-ones contents to the constructor table; missed before)"}),
 ("C15-2", "C15", 2, "psk_id enters the key schedule only in mode 0x01, not in AuthPsk",
  "AuthPsk mode with a non-empty bundle", {"C15": "VIOLATION (identified as hypothesis 'noid')", "C07": "VIOLATION"}),
 ("C16-1", "C16", 1, "SharedSecret::zeroize wipes in 32-byte chunks_exact_mut: the last 16 bytes of a 48-byte secret stay",
  "optional p384 feature (Nsecret = 48)", {"C16": "VIOLATION"}),
 ("C16-2", "C16", 2, "mix_nonce writes into an unwiped scratch field of AeadCtx: base nonce left behind after one seal/open",
  "context dropped after exactly one seal or open; only a memory scan sees it (the drop ledger stays clean)", {"C16": "VIOLATION"}),
 ("C17-1", "C17", 1, "MAX_PUBKEY_SIZE made per-feature with 96 instead of 97 for P-384 (+ truncating write_to_buf)",
  "p384 enabled and p521 disabled: outputs differ from the full feature set, the crate's own tests stay green", {"C17": "VIOLATION"}),
 ("C17-2", "C17", 2, "root re-export of single_shot_seal/open gated on alloc only",
  "std without alloc", {"C17": "VIOLATION"}),
 ("C18-1", "C18", 1, "process-wide static fingerprint of the last generated key: a repeated RNG stream draws a second block",
  "two consecutive key generations in the process with the same RNG bytes",
  {"C18": "VIOLATION", "C01": "OK (after giving scripted RNGs spare bytes; before, the exhausted scripted RNG panicked)"}),
 ("C18-2", "C18", 2, "thread_local cache of DH(skR, pkS) in AuthDecap keyed by pkS only (std feature)",
  "std feature, Auth/AuthPsk, two recipient keys with the same sender key back to back on one thread",
  {"C18": "VIOLATION (history-dependent; after giving session B its own recipient key and reporting mismatches that depend on the process history; missed before)"}),
]
DUP = {"C02-2": "C01-2", "C05-1": "C01-2", "C14-1": "C01-2", "C12-1": "C09-1", "C03-2": "C02-1"}
os.makedirs(DST, exist_ok=True)
for sid, prop, n, summary, needs, results in T:
    d = os.path.join(DST, sid)
    os.makedirs(d, exist_ok=True)
    shutil.copy(os.path.join(SRC, prop, "change%d.diff" % n), os.path.join(d, "patch.diff"))
    for ext in ("rs", "sh"):
        f = os.path.join(SRC, prop, "demo%d.%s" % (n, ext))
        if os.path.exists(f):
            shutil.copy(f, os.path.join(d, "demo.%s" % ext))
    json.dump({"id": sid, "breaks_property": prop, "summary": summary, "needs_to_manifest": needs,
               "produced_by": "independent sub-agent given only the property text and a scratch worktree of /repo",
               "confirmed_by": CONFIRM, "checks_run_against_it (quick tier, git -C /repo apply ... ; ./check ... ; git checkout)": results},
              open(os.path.join(d, "meta.json"), "w"), indent=1)
json.dump({"same_change_submitted_for_another_property": DUP}, open(os.path.join(DST, "duplicates.json"), "w"), indent=1)
print(len(T), "seeds kept")
