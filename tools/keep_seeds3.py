#!/usr/bin/env python3
"""Rounds 3 and 4 of seeded changes (sub-agents with themes instead of one property each): copies the confirmed,
non-duplicate ones from the scratch output into /verif/seeded/<id>/ (patch.diff, demo, meta.json) and records the
duplicates (same defect as an earlier seed, found again independently) in seeded/duplicates.json."""
import json, os, shutil
DST = "/verif/seeded"
CONFIRM = ("tools/confirm_seed.sh <scratch worktree> patch.diff demo: demonstration passes on the clean tree; with the patch the "
           "crate builds (--all-features), `cargo test --offline` still gives 35 passed, and the demonstration fails")
# id, source dir, n, breaks, detected_by, summary, needs, results
T = [
 ("C11-5", "/tmp/mut4/out/R1", 1, "C11", "C11",
  "a refused seal/open on an exhausted context 'shuts down': wipes base nonce and exporter secret",
  "latch set, then ONE refused seal/open, then export(): the export comes from an all-zero exporter secret",
  {"C11": "VIOLATION (missed at first: TransitionBatch dropped a mismatch that needed the preceding refused call - the "
          "confirmation replay re-created the state without it; fixed in engine.py, and C11 now keeps the refused calls and "
          "repeats the exports after them)"}),
 ("C04-5", "/tmp/mut4/out/R1", 3, "C04", "C04",
  "sender increments the sequence counter BEFORE the AEAD call: a SealError burns a sequence number",
  "a seal that fails in the AEAD (AES-GCM input over 2^36 bytes), then further messages", {"C04": "VIOLATION (seal_huge)", "C01": "OK"}),
 ("C13-5", "/tmp/mut4/out/R2", 2, "C13", "C13",
  "labeled_expand stack fast path forgets the 2 length-prefix bytes in its size check: panics for two exporter-context lengths",
  "export() with an exporter context of exactly 410 or 411 bytes",
  {"C13": "VIOLATION (after adding dense 0..700 length sweeps + power-of-two neighbourhoods; the length CLASSES missed it)",
   "C11": "VIOLATION (after extending the context-length sweep from 200 to 520)"}),
 ("C10-5", "/tmp/mut4/out/R3", 1, "C10", "C10",
  "X25519 all-zero check moved from dh() to the concatenated DH1||DH2 of the Auth variants (zero only if both are)",
  "receiver, Auth/AuthPsk, exactly one of encapsulated key / sender key small-order", {"C10": "VIOLATION"}),
 ("C02-5", "/tmp/mut4/out/R7", 2, "C02", "C02",
  "encap draws the ephemeral ikm into a buffer sized Nsecret instead of Nsk (P-521: 64 instead of 66 bytes)",
  "optional p521 feature, sender side, scripted RNG", {"C02": "VIOLATION", "C03": "VIOLATION"}),
 ("C17-5", "/tmp/mut4/out/R4", 1, "C08", "C17",
  "DHKEM scratch buffers sized by the largest ENABLED curve; MAX_DH_SIZE = MAX_PUBKEY_SIZE/2 and a truncating write_to_buf",
  "a build with x25519 as the only KEM: the second DH value of Auth mode is dropped (impostor with pkS accepted)",
  {"C17": "VIOLATION (outputs differ from the full feature set)", "C08": "OK (the executor is an all-features build, where the defect does not exist)"}),
 ("C18-5", "/tmp/mut4/out/R4", 2, "C18", "C18",
  "full_suite_id() caches its result in a OnceLock inside a generic fn (shared by all instantiations) under feature std",
  "std feature, two suites in one process: the first suite used fixes the suite id of all later ones",
  {"C18": "VIOLATION (after adding the order-independence run: same session scripts in opposite orders in two fresh processes)",
   "C07": "VIOLATION", "C02": "not run"}),
 ("C17-6", "/tmp/mut4/out/R5", 2, "C17", "C17",
  "MAX_DIGEST_SIZE = 48 without feature p521 + key-schedule context buffer tightened to 1 + 2*MAX",
  "any build without p521: every HKDF-SHA512 suite panics in setup", {"C17": "VIOLATION"}),
 ("C09-5", "/tmp/mut4/out/R5", 3, "C09", "C09",
  "NIST pk/enc deserialisation: input of exactly the compressed SEC1 length starting 02/03 -> ValidationError instead of IncorrectInputLength",
  "33/49/67-byte input with tag byte 02 or 03", {"C09": "VIOLATION", "C12": "VIOLATION"}),
 ("C16-5", "/tmp/mut4/out/R6", 3, "C16", "C16",
  "mix_nonce writes the message nonce into a raw context field that is wiped only on the success path and not on drop",
  "a receiver whose LAST open before being dropped failed (ledger sees nothing: only the memory scan does)", {"C16": "VIOLATION"}),
 ("C18-6", "/tmp/mut4/out/R7", 1, "C18", "C18",
  "one-entry static memo of the empty-psk_id hash with a torn read / unsynchronised writers (atomics)",
  "two or more threads setting up DIFFERENT suites in Base/Auth mode at the same time (about 1 wrong setup in 10^4)",
  {"C18": "VIOLATION 4/4 runs (after adding the cross-suite concurrency stress; the per-schedule concurrent re-run uses one suite and cannot see it)"}),
 ("C07-5", "/tmp/mut4/out/R7", 3, "C07", "C07",
  "one-entry static memo of info_hash keyed by (suite, info length, 32-bit FNV-1a of info) - correct sequence lock, weak key",
  "two info strings of equal length and equal FNV-1a value in consecutive same-suite setups",
  {"C07": "VIOLATION (after adding the weak-digest collision corpus, driver/weakhash.py; unreachable by random or bit-flip inputs)",
   "C18": "OK"}),
 # ---- round 4
 ("C11-6", "/tmp/mut5/out/S1", 2, "C11", "C11",
  "export() 'fails fast' for L > 255 * Kem::NSecret (the KEM's hash size) instead of the suite KDF's Nh",
  "suites whose KDF hash is larger than the KEM's (X25519/P-256 with SHA-384/512), L in (255*Nsecret, 255*Nh]", {"C11": "VIOLATION"}),
 ("C18-7", "/tmp/mut5/out/S1", 3, "C18", "C18",
  "write-once process-wide cache of the empty-psk_id hash tagged (KEM, KDF) - the hash also depends on the AEAD id",
  "a process's first Base/Auth setup with (K, D, A1), then any (K, D, A2): non-RFC keys (sender and receiver of one process still agree)",
  {"C18": "VIOLATION (after giving the order-independence scripts suites that share two of the three components; missed before)",
   "C02": "VIOLATION (reported as history-dependent)"}),
 ("C07-6", "/tmp/mut5/out/S2", 1, "C07", "C07",
  "labeled_extract fast path flattens into a 384-byte buffer with headroom computed for a 9-byte label; the copy loop truncates",
  "psk_id of exactly 357 or 358 bytes: its last 1-2 bytes bind nothing",
  {"C07": "VIOLATION (after adding the last-byte perturbation at EVERY length 0..600; missed before)", "C15": "OK"}),
 ("C11-7", "/tmp/mut5/out/S2", 3, "C11", "C11",
  "labeled_expand: for multi-block outputs the info is flattened into 512 bytes; the overflow branch appends the whole info again",
  "exporter context longer than 490 bytes AND L > Nh",
  {"C11": "VIOLATION (after sweeping the context length with a multi-block L as well; the sweep used L = 32 only)"}),
 ("C18-8", "/tmp/mut5/out/S4", 3, "C18", "C18",
  "static one-entry cache of the sender's static-static DH keyed by pkS || pkR in a MAX_PUBKEY_SIZE buffer (P-521: pkS alone)",
  "optional p521 feature: one identity sending in Auth mode to R1 and then to R2 in one process",
  {"C18": "VIOLATION (after letting the stress sessions of one KEM share the sender identity; missed before)", "C01": "OK"}),
 ("C18-9", "/tmp/mut5/out/S7", 2, "C18", "C18",
  "lock-free cache of psk_id_hash/info_hash for empty inputs keyed kem<<16|kdf<<8|aead: the export-only id 0xFFFF overwrites the KDF bits",
  "two export-only suites of one KEM with different KDFs, empty info, Base/Auth, one process",
  {"C18": "VIOLATION (after the suite list of the order-independence run got such a pair with empty info; missed before)", "C11": "OK"}),
 ("C05-5", "/tmp/mut5/out/S7", 3, "C05", "C05",
  "receiver 'fast reject': remembers the tag of the last failed open of a message >= 1024 bytes and refuses that tag at that position",
  "the genuine tag arrives first with a wrong aad / damaged body (message >= 1 KiB): the intact message is then rejected forever",
  {"C05": "VIOLATION (after (1) TransitionBatch makes a state-changing call AFTER the state-preserving ones on the same state, "
          "closest relatives of the accepted delivery last, (2) a large-message variant; missed before)"}),
 ("C10-6", "/tmp/mut5/out/S8", 2, "C10", "C10",
  "X25519 dh() also refuses every non-canonical u in [p, 2^255) ('unreduced small-order points'): 34 encodings that are not small order",
  "u = p+2 .. p+18 (bit 255 clear or set) in any key role", {"C10": "VIOLATION"}),
]
DUP = {
 "round3 R1.2 (latch not cleared when a failed AEAD call gives the sequence number back at 2^64-1)": "C05-2; C05 and C04 VIOLATION",
 "round3 R2.1, R6.1, round4 S6.1 (exporter secret wiped at the exhaustion transition)": "C11-2; C11 VIOLATION",
 "round3 R2.3, R8.2, round4 S3.1, S4.2 (mode id from bundle emptiness)": "C07-1; C07 VIOLATION",
 "round3 R3.2, round4 S1.1, S5.3, S6.3 (gen_keypair buffer sized Nsecret)": "C02-1; C03 and C02 VIOLATION",
 "round3 R3.3, round4 S3.2 (NIST candidate reduced mod n)": "C03-1; C03 VIOLATION",
 "round3 R4.3, R8.3, round4 S5.2 (root re-export gated on alloc only)": "C17-2; C17 VIOLATION",
 "round3 R5.1, R8.1, round4 S2.2, S5.1, S8.3 (single_shot_open length guard before decapsulation)": "C14-2; C14 VIOLATION",
 "round3 R6.2 (wipe skipped when the XOR fold of the bytes is 0, shared helper)": "C16-3; C16 VIOLATION",
 "round4 S3.3 (encap ikm buffer sized Nsecret)": "C02-5",
 "round4 S4.1 (Auth: the two all-zero checks combined with & instead of |)": "C10-5; C10 VIOLATION",
 "round4 S6.2, S7.1 (per-context nonce scratch / precomputed next nonce in a field without Drop)": "C16-2; C16 VIOLATION",
 "round4 S8.1 (P-521 bit mask moved into PrivateKey::from_bytes)": "C09-1; C09 and C12 VIOLATION",
}
for sid, src, n, breaks, detect, summary, needs, results in T:
    d = os.path.join(DST, sid)
    if not os.path.isdir(src):
        continue
    os.makedirs(d, exist_ok=True)
    shutil.copy(os.path.join(src, "change%d.diff" % n), os.path.join(d, "patch.diff"))
    for ext in ("rs", "sh"):
        f = os.path.join(src, "demo%d.%s" % (n, ext))
        if os.path.exists(f):
            shutil.copy(f, os.path.join(d, "demo.%s" % ext))
    json.dump({"id": sid, "breaks_property": breaks, "detected_by_check_of": detect, "summary": summary, "needs_to_manifest": needs,
               "produced_by": "independent sub-agent (themed round) given only the property texts and a scratch worktree of /repo",
               "confirmed_by": CONFIRM, "checks_run_against_it (quick tier, patch applied to a scratch copy of /repo)": results},
              open(os.path.join(d, "meta.json"), "w"), indent=1)
p = os.path.join(DST, "duplicates.json")
old = json.load(open(p))
old["found_again_in_the_themed_rounds (same defect as an earlier seed, other agent)"] = DUP
json.dump(old, open(p, "w"), indent=1)
print(len(T), "seeds")
