#!/bin/sh
# Build the framework from files on disk only (offline): executor against /repo's working tree,
# parse every TLA+ module, oracle self-test, RFC anchor.
set -e
cd "$(dirname "$0")"
export CARGO_NET_OFFLINE=true
(cd executor && cargo build --release --offline 2>&1 | tail -2)
(cd executor && cargo build --profile plain --offline 2>&1 | tail -1)
mkdir -p out
for m in spec/*.tla; do
  # Counter.tla is an Apalache module (EXTENDS Apalache, not on SANY's path); it is type-checked by apalache-mc in C04
  [ "$(basename "$m")" = "Counter.tla" ] && continue
  (cd spec && java -cp /opt/veriftools/tla/tla2tools.jar:/opt/veriftools/tla/CommunityModules-deps.jar tla2sany.SANY "$(basename "$m")") > out/sany.log 2>&1 || { cat out/sany.log; echo "SANY failed on $m"; exit 1; }
  if grep -q "Semantic errors\|Parse Error\|\*\*\* Errors" out/sany.log; then cat out/sany.log; echo "SANY failed on $m"; exit 1; fi
done
python3 oracle/selftest.py
python3 -m driver.anchor
echo "setup: OK"
