//! Byte-string arguments (ARG) of the NDJSON protocol: hex strings, references to earlier events,
//! generators, and the little byte-surgery language (`ops`). Pure tool code, no library calls.

use serde_json::{Map, Value};

pub type Obj = Map<String, Value>;

/// Largest byte string a generator (`zeros`, `fill`, `prng`) may produce
const MAX_GEN: u64 = 1 << 26;

pub fn hex_encode(b: &[u8]) -> String {
    const T: &[u8; 16] = b"0123456789abcdef";
    let mut s = String::with_capacity(b.len() * 2);
    for x in b {
        s.push(T[(x >> 4) as usize] as char);
        s.push(T[(x & 15) as usize] as char);
    }
    s
}

pub fn hex_decode(s: &str) -> Result<Vec<u8>, String> {
    let b = s.as_bytes();
    if b.len() % 2 != 0 {
        return Err(format!("bad hex: odd length {}", b.len()));
    }
    fn nib(c: u8) -> Result<u8, String> {
        match c {
            b'0'..=b'9' => Ok(c - b'0'),
            b'a'..=b'f' => Ok(c - b'a' + 10),
            b'A'..=b'F' => Ok(c - b'A' + 10),
            _ => Err(format!("bad hex: character {:?}", c as char)),
        }
    }
    let mut out = Vec::with_capacity(b.len() / 2);
    for p in b.chunks(2) {
        out.push((nib(p[0])? << 4) | nib(p[1])?);
    }
    Ok(out)
}

/// The deterministic generator behind `{"prng":[SEED,N]}`. This is splitmix64; the Python side
/// reproduces it exactly:
///
/// ```text
/// state = seed
/// repeat:
///     state = (state + 0x9E3779B97F4A7C15) mod 2^64
///     z = state
///     z = ((z ^ (z >> 30)) * 0xBF58476D1CE4E5B9) mod 2^64
///     z = ((z ^ (z >> 27)) * 0x94D049BB133111EB) mod 2^64
///     z = z ^ (z >> 31)
///     output the 8 bytes of z, little-endian
/// ```
///
/// The output is the first N bytes of that stream (the last block is truncated).
pub fn prng_bytes(seed: u64, n: usize) -> Vec<u8> {
    let mut state = seed;
    let mut out = Vec::with_capacity(n + 8);
    while out.len() < n {
        state = state.wrapping_add(0x9E37_79B9_7F4A_7C15);
        let mut z = state;
        z = (z ^ (z >> 30)).wrapping_mul(0xBF58_476D_1CE4_E5B9);
        z = (z ^ (z >> 27)).wrapping_mul(0x94D0_49BB_1331_11EB);
        z ^= z >> 31;
        out.extend_from_slice(&z.to_le_bytes());
    }
    out.truncate(n);
    out
}

/// What `ref` / `lref` can see
pub struct Env<'a> {
    /// Top-level events of this run that are complete (all have index < current command)
    pub global: &'a [Value],
    /// Inside a `par` list: the events of the same list produced so far
    pub local: Option<&'a [Value]>,
}

fn as_count(v: &Value, what: &str) -> Result<usize, String> {
    v.as_u64()
        .map(|n| n as usize)
        .ok_or_else(|| format!("{} must be a non-negative integer", what))
}

fn gen_len(v: &Value, what: &str) -> Result<usize, String> {
    let n = v
        .as_u64()
        .ok_or_else(|| format!("{} must be a non-negative integer", what))?;
    if n > MAX_GEN {
        return Err(format!("{} = {} exceeds the generator limit {}", what, n, MAX_GEN));
    }
    Ok(n as usize)
}

fn lookup(events: &[Value], which: &str, idx: &Value, o: &Obj) -> Result<Vec<u8>, String> {
    let i = as_count(idx, which)?;
    let ev = events.get(i).ok_or_else(|| {
        format!("{} {} out of range: only {} earlier events visible", which, i, events.len())
    })?;
    // Extension: {"ref":I,"path":[...]} walks from the event root (e.g. into par results or to
    // buf_after); the standard form {"ref":I,"field":NAME} is ok.NAME.
    let (target, descr) = if let Some(path) = o.get("path") {
        let path = path.as_array().ok_or("path must be an array")?;
        let mut cur = ev;
        for step in path {
            cur = match step {
                Value::String(k) => cur.get(k.as_str()),
                Value::Number(_) => cur.get(as_count(step, "path index")?),
                _ => None,
            }
            .ok_or_else(|| format!("{} {}: path step {} not found", which, i, step))?;
        }
        (cur, format!("path {}", Value::Array(path.clone())))
    } else {
        let field = o
            .get("field")
            .and_then(Value::as_str)
            .ok_or_else(|| format!("{} needs a string \"field\" (or a \"path\")", which))?;
        let t = ev
            .get("ok")
            .and_then(|ok| ok.get(field))
            .ok_or_else(|| format!("{} {}: event has no ok.{}", which, i, field))?;
        (t, format!("ok.{}", field))
    };
    let s = target
        .as_str()
        .ok_or_else(|| format!("{} {}: {} is not a hex string", which, i, descr))?;
    hex_decode(s)
}

fn base(o: &Obj, env: &Env) -> Result<Vec<u8>, String> {
    if let Some(i) = o.get("ref") {
        return lookup(env.global, "ref", i, o);
    }
    if let Some(j) = o.get("lref") {
        let local = env
            .local
            .ok_or("lref is only allowed inside a par thread list")?;
        return lookup(local, "lref", j, o);
    }
    if let Some(parts) = o.get("cat") {
        let parts = parts.as_array().ok_or("cat must be an array of ARGs")?;
        let mut out = Vec::new();
        for p in parts {
            out.extend_from_slice(&resolve(p, env)?);
        }
        return Ok(out);
    }
    if let Some(h) = o.get("hex") {
        return hex_decode(h.as_str().ok_or("hex must be a string")?);
    }
    if let Some(n) = o.get("zeros") {
        return Ok(vec![0u8; gen_len(n, "zeros")?]);
    }
    if let Some(f) = o.get("fill") {
        let f = f.as_array().filter(|a| a.len() == 2).ok_or("fill must be [BYTE, N]")?;
        let b = f[0].as_u64().filter(|b| *b < 256).ok_or("fill BYTE must be 0..=255")?;
        return Ok(vec![b as u8; gen_len(&f[1], "fill N")?]);
    }
    if let Some(p) = o.get("prng") {
        let p = p.as_array().filter(|a| a.len() == 2).ok_or("prng must be [SEED_U64, N]")?;
        let seed = p[0].as_u64().ok_or("prng SEED must be a u64")?;
        return Ok(prng_bytes(seed, gen_len(&p[1], "prng N")?));
    }
    Err("ARG object needs one of ref, lref, cat, hex, zeros, fill, prng".into())
}

fn apply(b: &mut Vec<u8>, op: &Value, env: &Env) -> Result<(), String> {
    let o = op
        .as_object()
        .filter(|o| o.len() == 1)
        .ok_or("each op must be an object with exactly one key")?;
    let (name, v) = o.iter().next().unwrap();
    match name.as_str() {
        "flip" => {
            let k = as_count(v, "flip")?;
            if k / 8 >= b.len() {
                return Err(format!("flip {} out of range for {} bytes", k, b.len()));
            }
            b[k / 8] ^= 1 << (k % 8);
        }
        "trunc" => {
            let n = as_count(v, "trunc")?;
            if n > b.len() {
                return Err(format!("trunc {} exceeds length {}", n, b.len()));
            }
            b.truncate(n);
        }
        "drop_front" => {
            let n = as_count(v, "drop_front")?;
            if n > b.len() {
                return Err(format!("drop_front {} exceeds length {}", n, b.len()));
            }
            b.drain(..n);
        }
        "append" => {
            let x = resolve(v, env)?;
            b.extend_from_slice(&x);
        }
        "prepend" => {
            let mut x = resolve(v, env)?;
            x.extend_from_slice(b);
            *b = x;
        }
        "slice" => {
            let ab = v.as_array().filter(|a| a.len() == 2).ok_or("slice must be [A,B]")?;
            let (a, e) = (as_count(&ab[0], "slice A")?, as_count(&ab[1], "slice B")?);
            if a > e || e > b.len() {
                return Err(format!("slice [{},{}] invalid for {} bytes", a, e, b.len()));
            }
            *b = b[a..e].to_vec();
        }
        "set" => {
            let s = v.as_object().ok_or("set must be {\"at\":A,\"bytes\":ARG}")?;
            let at = as_count(s.get("at").ok_or("set needs at")?, "set at")?;
            let x = resolve(s.get("bytes").ok_or("set needs bytes")?, env)?;
            if at > b.len() || x.len() > b.len() - at {
                return Err(format!("set of {} bytes at {} does not fit in {} bytes", x.len(), at, b.len()));
            }
            b[at..at + x.len()].copy_from_slice(&x);
        }
        "xor" => {
            let x = resolve(v, env)?;
            if x.len() != b.len() {
                return Err(format!("xor length mismatch: {} vs {}", b.len(), x.len()));
            }
            for (d, s) in b.iter_mut().zip(x.iter()) {
                *d ^= s;
            }
        }
        other => return Err(format!("unknown byte op {:?}", other)),
    }
    Ok(())
}

/// Resolves an ARG to bytes
pub fn resolve(v: &Value, env: &Env) -> Result<Vec<u8>, String> {
    match v {
        Value::String(s) => hex_decode(s),
        Value::Object(o) => {
            let mut b = base(o, env)?;
            if let Some(ops) = o.get("ops") {
                for op in ops.as_array().ok_or("ops must be an array")? {
                    apply(&mut b, op, env)?;
                }
            }
            Ok(b)
        }
        _ => Err("a byte argument must be a hex string or an ARG object".into()),
    }
}
