//! hpke-exec: a thin NDJSON executor for the `hpke` crate at /repo.
//!
//! Reads one JSON command per line, calls the real library, writes one JSON event per command.
//! It contains no HPKE logic. See README.md for the protocol.

#[macro_use]
mod ops;
mod args;
mod cmd;
mod prim;

use args::{Env, Obj};
use cmd::Cmd;
use ops::{
    any_window_found, guard, hexv, panic_message, tool, volatile_copy, DynCtx, OpResult,
    ReceiverParams, ScriptedRng, SenderParams, Stop,
};

use hpke::{aead::AeadTag, kem::Kem as KemTrait};
use serde_json::{json, Value};
use std::{
    collections::{BTreeSet, HashMap},
    io::{BufRead, BufReader, BufWriter, Read, Write},
    panic::{catch_unwind, AssertUnwindSafe},
    sync::{mpsc, Arc, Barrier, Mutex, MutexGuard, RwLock},
    thread,
};

type Handle = Arc<Mutex<Box<dyn DynCtx>>>;

/// Stack size of every thread this tool spawns (this crate is built unoptimised, frames are big)
const THREAD_STACK: usize = 16 << 20;

/// Shared by the main thread, the persistent workers and the `par` threads
struct State {
    /// Named contexts
    ctxs: Mutex<HashMap<String, Handle>>,
    /// Completed top-level events, for `ref`
    log: RwLock<Vec<Value>>,
}

/// Poison-tolerant lock (a library panic while a context is locked must not wedge the run)
fn lock<T: ?Sized>(m: &Mutex<T>) -> MutexGuard<'_, T> {
    m.lock().unwrap_or_else(|e| e.into_inner())
}

impl State {
    fn get_ctx(&self, name: &str) -> Option<Handle> {
        lock(&self.ctxs).get(name).cloned()
    }

    fn need_ctx(&self, name: &str) -> Result<Handle, Stop> {
        self.get_ctx(name)
            .ok_or_else(|| tool(format!("unknown ctx {:?}", name)))
    }

    /// Stores a context; a previous context of that name is dropped (under `guard`, since that
    /// runs the library's Drop code)
    fn store_ctx(&self, name: &str, b: Box<dyn DynCtx>) -> Result<(), Stop> {
        let old = lock(&self.ctxs).insert(name.to_string(), Arc::new(Mutex::new(b)));
        guard(|| {
            drop(old);
            Ok(())
        })
    }
}

// ------------------------------------------------------------------------------------------------
// Ops
// ------------------------------------------------------------------------------------------------

/// `with_ty!(c, T, body)`: binds `T` to the type named by "ty" + "kem" | "aead"
macro_rules! with_ty {
    ($c:expr, $T:ident, $body:expr) => {
        match $c.str("ty")? {
            "pk" => {
                let id = $c.int("kem")?;
                with_kem!(id, Kem__, { type $T = <Kem__ as KemTrait>::PublicKey; $body })
            }
            "sk" => {
                let id = $c.int("kem")?;
                with_kem!(id, Kem__, { type $T = <Kem__ as KemTrait>::PrivateKey; $body })
            }
            "enc" => {
                let id = $c.int("kem")?;
                with_kem!(id, Kem__, { type $T = <Kem__ as KemTrait>::EncappedKey; $body })
            }
            "tag" => {
                let id = $c.int("aead")?;
                with_aead!(id, Aead__, { type $T = AeadTag<Aead__>; $body })
            }
            other => Err(tool(format!("unknown ty {:?}", other))),
        }
    };
}

fn sender_params(c: &Cmd) -> Result<SenderParams, Stop> {
    let p = SenderParams {
        mode: c.mode()?,
        pk_r: c.bytes("pk_r")?,
        info: c.bytes("info")?,
        psk: c.bytes_or_empty("psk")?,
        psk_id: c.bytes_or_empty("psk_id")?,
        sk_s: c.opt_bytes("sk_s")?,
        pk_s: c.opt_bytes("pk_s")?,
    };
    if p.mode >= 2 && (p.sk_s.is_none() || p.pk_s.is_none()) {
        return Err(tool("modes 2 and 3 need sk_s and pk_s"));
    }
    Ok(p)
}

fn receiver_params(c: &Cmd) -> Result<ReceiverParams, Stop> {
    let p = ReceiverParams {
        mode: c.mode()?,
        sk_r: c.bytes("sk_r")?,
        enc: c.bytes("enc")?,
        info: c.bytes("info")?,
        psk: c.bytes_or_empty("psk")?,
        psk_id: c.bytes_or_empty("psk_id")?,
        pk_s: c.opt_bytes("pk_s")?,
    };
    if p.mode >= 2 && p.pk_s.is_none() {
        return Err(tool("modes 2 and 3 need pk_s"));
    }
    Ok(p)
}

/// Sender identity for `encap`: given iff both sk_s and pk_s are present
fn encap_identity(c: &Cmd) -> Result<(Option<Vec<u8>>, Option<Vec<u8>>), Stop> {
    let (sk_s, pk_s) = (c.opt_bytes("sk_s")?, c.opt_bytes("pk_s")?);
    if sk_s.is_some() != pk_s.is_some() {
        return Err(tool("give both sk_s and pk_s, or neither"));
    }
    Ok((sk_s, pk_s))
}

fn parse_seq(s: &str) -> Result<u64, Stop> {
    if s.len() != 16 || !s.bytes().all(|b| b.is_ascii_hexdigit()) {
        return Err(tool("seq must be exactly 16 hex digits"));
    }
    u64::from_str_radix(s, 16).map_err(|e| tool(format!("seq: {}", e)))
}

/// Payload of the unwind `drop` starts when asked to run a destructor during unwinding
struct DeliberateUnwind;

fn op_drop(st: &State, c: &Cmd) -> OpResult {
    let name = c.str("ctx")?;
    let unwinding = if c.has("unwinding") { c.boolean("unwinding")? } else { false };
    // Resolve the scan strings before touching anything
    let scans: Option<Vec<Vec<u8>>> = match c.has("scan") {
        false => None,
        true => {
            let arr = c
                .value("scan")?
                .as_array()
                .ok_or_else(|| tool("scan must be an array of ARGs"))?;
            let mut v = Vec::new();
            for (k, a) in arr.iter().enumerate() {
                let b = c.resolve_value(a, &format!("scan[{}]", k))?;
                if b.len() < 8 {
                    return Err(tool(format!("scan[{}] is shorter than 8 bytes", k)));
                }
                v.push(b);
            }
            Some(v)
        }
    };
    if st.get_ctx(name).is_none() {
        return Err(tool(format!("unknown ctx {:?}", name)));
    }
    let handle = lock(&st.ctxs).remove(name).expect("checked above");
    let mutex = match Arc::try_unwrap(handle) {
        Ok(m) => m,
        Err(handle) => {
            // Only possible when two par lists name the same context: put it back
            lock(&st.ctxs).insert(name.to_string(), handle);
            return Err(tool("ctx is in use by another thread"));
        }
    };
    let boxed: Box<dyn DynCtx> = mutex.into_inner().unwrap_or_else(|e| e.into_inner());

    let scans = match scans {
        None => {
            return guard(|| {
                drop(boxed);
                Ok(obj! {})
            })
        }
        Some(s) => s,
    };

    // The concrete AeadCtxS/AeadCtxR lives in the Box's heap allocation and has not moved since it
    // was boxed. Snapshot the allocation, run the destructor in place, snapshot again, free.
    let raw: *mut dyn DynCtx = Box::into_raw(boxed);
    // SAFETY: raw comes from Box::into_raw; the value is dropped exactly once; the allocation is
    // released with the layout it was made with and without running the destructor a second time.
    let (size, before, after, dropped) = unsafe {
        let layout = std::alloc::Layout::for_value(&*raw);
        let p = raw as *mut u8;
        let before = volatile_copy(p, layout.size());
        let dropped = if unwinding {
            // Run the destructor WHILE THIS THREAD UNWINDS (a context owned by a caller that panics): a guard whose
            // Drop runs it, then a deliberate unwind that does not go through the panic hook
            struct DropOnUnwind(*mut dyn DynCtx);
            impl Drop for DropOnUnwind {
                fn drop(&mut self) {
                    unsafe { std::ptr::drop_in_place(self.0) }
                }
            }
            let r = catch_unwind(AssertUnwindSafe(|| {
                let _g = DropOnUnwind(raw);
                std::panic::resume_unwind(Box::new(DeliberateUnwind));
            }));
            match r {
                Err(p) if p.is::<DeliberateUnwind>() => Ok(()),
                other => other,
            }
        } else {
            catch_unwind(AssertUnwindSafe(|| std::ptr::drop_in_place(raw)))
        };
        let after = volatile_copy(p, layout.size());
        if layout.size() != 0 {
            std::alloc::dealloc(p, layout);
        }
        (layout.size(), before, after, dropped)
    };
    if let Err(p) = dropped {
        return Err(Stop::Panic(panic_message(p)));
    }
    let fb: Vec<bool> = scans.iter().map(|s| any_window_found(&before, s)).collect();
    let fa: Vec<bool> = scans.iter().map(|s| any_window_found(&after, s)).collect();
    Ok(obj! {"size": size, "found_before": fb, "found_after": fa})
}

fn op_par_export(st: &State, c: &Cmd) -> OpResult {
    let h = st.need_ctx(c.str("ctx")?)?;
    let n = c.int("threads")? as usize;
    if n == 0 || n > 64 {
        return Err(tool("threads must be 1..=64"));
    }
    let ectx = c.bytes("exporter_ctx")?;
    let len = c.len("len")?;
    let reps = c.int("reps")? as usize;

    let g = lock(&h);
    let shared: &dyn DynCtx = &**g;
    let barrier = Barrier::new(n);
    // One Vec of per-call results per thread
    let per_thread: Vec<Result<Vec<Result<Vec<u8>, Stop>>, String>> = thread::scope(|s| {
        let hs: Vec<_> = (0..n)
            .map(|_| {
                let b = thread::Builder::new().stack_size(THREAD_STACK);
                b.spawn_scoped(s, || {
                    barrier.wait();
                    let mut res = Vec::with_capacity(reps);
                    for _ in 0..reps {
                        let mut out = vec![0u8; len];
                        res.push(guard(|| {
                            shared.export(&ectx, &mut out)?;
                            Ok(())
                        })
                        .map(|()| out));
                    }
                    res
                })
                .expect("cannot spawn par_export thread")
            })
            .collect();
        hs.into_iter()
            .map(|h| h.join().map_err(panic_message))
            .collect()
    });

    let mut outs = BTreeSet::new();
    let mut first_stop: Option<Stop> = None;
    for t in per_thread {
        let t = t.map_err(|m| tool(format!("par_export thread died: {}", m)))?;
        for r in t {
            match r {
                Ok(o) => {
                    outs.insert(args::hex_encode(&o));
                }
                Err(s) => {
                    // Prefer reporting a panic over an err
                    let replace = match (&first_stop, &s) {
                        (None, _) => true,
                        (Some(Stop::Err { .. }), Stop::Panic(_)) => true,
                        _ => false,
                    };
                    if replace {
                        first_stop = Some(s);
                    }
                }
            }
        }
    }
    if let Some(s) = first_stop {
        return Err(s);
    }
    Ok(obj! {"outs": outs.into_iter().collect::<Vec<String>>()})
}

fn op_par(st: &State, c: &Cmd) -> OpResult {
    let lists = c
        .value("threads")?
        .as_array()
        .filter(|a| !a.is_empty() && a.len() <= 64 && a.iter().all(Value::is_array))
        .ok_or_else(|| tool("threads must be a non-empty array (at most 64) of command arrays"))?;
    let inner_ledger = if c.has("inner_ledger") { c.boolean("inner_ledger")? } else { false };
    let reps = if c.has("reps") { c.int("reps")? } else { 1 };
    let barrier = Barrier::new(lists.len());
    let results: Vec<Result<Vec<Value>, String>> = thread::scope(|s| {
        let hs: Vec<_> = lists
            .iter()
            .map(|list| {
                let barrier = &barrier;
                let b = thread::Builder::new().stack_size(THREAD_STACK);
                b.spawn_scoped(s, move || {
                    barrier.wait();
                    let mut local: Vec<Value> = Vec::new();
                    for (j, cmd) in list.as_array().unwrap().iter().enumerate() {
                        let ev = exec_cmd(st, cmd, j, Some(&local), inner_ledger);
                        local.push(ev);
                    }
                    // "reps": the list is run again and again (its commands must re-create what they
                    // use); the first repetition whose events differ from the first run is appended
                    // as a {"diverged": ..} record and ends this thread
                    for rep in 1..reps {
                        let mut again: Vec<Value> = Vec::new();
                        let mut diverged = None;
                        for (j, cmd) in list.as_array().unwrap().iter().enumerate() {
                            let ev = exec_cmd(st, cmd, j, Some(&again), inner_ledger);
                            if diverged.is_none() && ev != local[j] {
                                diverged = Some(json!({"diverged": {"rep": rep, "j": j, "event": ev.clone()}}));
                            }
                            again.push(ev);
                        }
                        if let Some(d) = diverged {
                            local.push(d);
                            break;
                        }
                    }
                    local
                })
                .expect("cannot spawn par thread")
            })
            .collect();
        hs.into_iter()
            .map(|h| h.join().map_err(panic_message))
            .collect()
    });
    let mut out = Vec::new();
    for r in results {
        out.push(Value::Array(
            r.map_err(|m| tool(format!("par thread died: {}", m)))?,
        ));
    }
    Ok(obj! {"results": out})
}

/// Parses the command (tool code; failures are tool_errors) and runs the library call(s) under
/// `guard` (failures are err / panic)
fn exec_op(st: &State, op: &str, c: &Cmd, nested: bool) -> OpResult {
    match op {
        "derive_keypair" => {
            let kem = c.int("kem")?;
            let ikm = c.bytes("ikm")?;
            with_kem!(kem, Kem, guard(|| ops::derive_keypair::<Kem>(&ikm)))
        }
        "gen_keypair" => {
            let kem = c.int("kem")?;
            let mut rng = ScriptedRng::new(c.bytes("rng")?);
            with_kem!(kem, Kem, guard(|| ops::gen_keypair::<Kem>(&mut rng)))
        }
        "sk_to_pk" => {
            let kem = c.int("kem")?;
            let sk = c.bytes("sk")?;
            with_kem!(kem, Kem, guard(|| ops::sk_to_pk::<Kem>(&sk)))
        }
        "from_bytes" => {
            let bytes = c.bytes("bytes")?;
            with_ty!(c, T, guard(|| ops::ty_from_bytes::<T>(&bytes)))
        }
        "write_exact" => {
            let bytes = c.bytes("bytes")?;
            let buflen = c.len("buflen")?;
            with_ty!(c, T, guard(|| ops::ty_write_exact::<T>(&bytes, buflen)))
        }
        "size" => with_ty!(c, T, guard(|| ops::ty_size::<T>())),
        "key_eq" => {
            let (a, b) = (c.bytes("a")?, c.bytes("b")?);
            let id = c.int("kem")?;
            match c.str("ty")? {
                "pk" => with_kem!(id, Kem, guard(|| ops::key_eq::<<Kem as KemTrait>::PublicKey>(&a, &b))),
                "sk" => with_kem!(id, Kem, guard(|| ops::key_eq::<<Kem as KemTrait>::PrivateKey>(&a, &b))),
                other => Err(tool(format!("key_eq: no == for ty {:?}", other))),
            }
        }
        "psk_bundle_new" => {
            let (psk, psk_id) = (c.bytes("psk")?, c.bytes("psk_id")?);
            guard(|| ops::psk_bundle_new(&psk, &psk_id))
        }
        "encap" => {
            let kem = c.int("kem")?;
            let pk_r = c.bytes("pk_r")?;
            let (sk_s, pk_s) = encap_identity(c)?;
            let mut rng = ScriptedRng::new(c.bytes("rng")?);
            with_kem!(
                kem,
                Kem,
                guard(|| ops::encap::<Kem>(&pk_r, sk_s.as_deref(), pk_s.as_deref(), &mut rng))
            )
        }
        "decap" => {
            let kem = c.int("kem")?;
            let (sk_r, enc) = (c.bytes("sk_r")?, c.bytes("enc")?);
            let pk_s = c.opt_bytes("pk_s")?;
            with_kem!(kem, Kem, guard(|| ops::decap::<Kem>(&sk_r, pk_s.as_deref(), &enc)))
        }
        "drop_shared_secret" => {
            let kem = c.int("kem")?;
            let (sk_r, enc) = (c.bytes("sk_r")?, c.bytes("enc")?);
            let pk_s = c.opt_bytes("pk_s")?;
            with_kem!(
                kem,
                Kem,
                guard(|| ops::drop_shared_secret::<Kem>(&sk_r, pk_s.as_deref(), &enc))
            )
        }
        "setup_s" => {
            let suite = c.suite()?;
            let p = sender_params(c)?;
            let name = c.str("ctx")?;
            let mut rng = ScriptedRng::new(c.bytes("rng")?);
            let (ok, boxed) = with_suite!(
                suite,
                A,
                Kdf,
                Kem,
                guard(|| ops::setup_s::<A, Kdf, Kem>(&p, &mut rng))
            )?;
            st.store_ctx(name, boxed)?;
            Ok(ok)
        }
        "setup_r" => {
            let suite = c.suite()?;
            let p = receiver_params(c)?;
            let name = c.str("ctx")?;
            let (ok, boxed) =
                with_suite!(suite, A, Kdf, Kem, guard(|| ops::setup_r::<A, Kdf, Kem>(&p)))?;
            st.store_ctx(name, boxed)?;
            Ok(ok)
        }
        "raw_ctx" => {
            let suite = c.suite()?;
            let role = c.str("role")?;
            if role != "S" && role != "R" {
                return Err(tool("role must be \"S\" or \"R\""));
            }
            let (key, nonce) = (c.bytes("key")?, c.bytes("base_nonce")?);
            let exp = c.bytes("exporter_secret")?;
            let name = c.str("ctx")?;
            let (ok, boxed) = with_suite!(
                suite,
                A,
                Kdf,
                Kem,
                guard(|| ops::raw_ctx::<A, Kdf, Kem>(role, &key, &nonce, &exp))
            )?;
            st.store_ctx(name, boxed)?;
            Ok(ok)
        }
        "seal" => {
            let h = st.need_ctx(c.str("ctx")?)?;
            let (pt, aad) = (c.bytes("pt")?, c.bytes("aad")?);
            let detached = c.detached()?;
            let mut g = lock(&h);
            if g.role() != "S" {
                return Err(tool("seal on a receiver context"));
            }
            if detached {
                let mut buf = pt;
                match guard(|| Ok(g.seal_detached(&mut buf, &aad)))? {
                    Ok(tag) => Ok(obj! {"ct": hexv(&buf), "tag": hexv(&tag)}),
                    Err(e) => Err(ops::with_extra(e.into(), "buf_after", hexv(&buf))),
                }
            } else {
                let ct = guard(|| Ok(g.seal_alloc(&pt, &aad)?))?;
                Ok(obj! {"ct": hexv(&ct)})
            }
        }
        "seal_huge" => {
            // A plaintext far beyond what any AEAD accepts, as a lazily mapped zero region of `len` bytes
            // (MAP_NORESERVE: never backed by memory unless the library writes to it - which it must not).
            let h = st.need_ctx(c.str("ctx")?)?;
            let aad = c.bytes("aad")?;
            let len: usize = c.str("len")?.parse().map_err(|_| tool("len must be a decimal string"))?;
            let mut g = lock(&h);
            if g.role() != "S" {
                return Err(tool("seal on a receiver context"));
            }
            let map = HugeMap::new(len).ok_or_else(|| tool("cannot map the region"))?;
            let buf = unsafe { std::slice::from_raw_parts_mut(map.ptr, map.len) };
            match guard(|| Ok(g.seal_detached(buf, &aad)))? {
                Ok(tag) => Ok(obj! {"tag": hexv(&tag)}),
                Err(e) => Err(e.into()),
            }
        }
        "open" => {
            let h = st.need_ctx(c.str("ctx")?)?;
            let (ct, aad) = (c.bytes("ct")?, c.bytes("aad")?);
            let detached = c.detached()?;
            let tag = if detached { Some(c.bytes("tag")?) } else { None };
            let mut g = lock(&h);
            if g.role() != "R" {
                return Err(tool("open on a sender context"));
            }
            if let Some(tag) = tag {
                let mut buf = ct;
                match guard(|| Ok(g.open_detached(&mut buf, &aad, &tag)))? {
                    Ok(()) => Ok(obj! {"pt": hexv(&buf)}),
                    Err(e) => Err(ops::with_extra(e.into(), "buf_after", hexv(&buf))),
                }
            } else {
                let pt = guard(|| Ok(g.open_alloc(&ct, &aad)?))?;
                Ok(obj! {"pt": hexv(&pt)})
            }
        }
        "export" => {
            let h = st.need_ctx(c.str("ctx")?)?;
            let ectx = c.bytes("exporter_ctx")?;
            let len = c.len("len")?;
            let g = lock(&h);
            let mut out = vec![0u8; len];
            guard(|| Ok(g.export(&ectx, &mut out)?))?;
            Ok(obj! {"out": hexv(&out)})
        }
        "single_shot_seal" => {
            let suite = c.suite()?;
            let p = sender_params(c)?;
            let (pt, aad) = (c.bytes("pt")?, c.bytes("aad")?);
            let detached = c.detached()?;
            let mut rng = ScriptedRng::new(c.bytes("rng")?);
            with_suite!(
                suite,
                A,
                Kdf,
                Kem,
                guard(|| ops::single_shot_seal::<A, Kdf, Kem>(&p, &mut rng, &pt, &aad, detached))
            )
        }
        "single_shot_open" => {
            let suite = c.suite()?;
            let p = receiver_params(c)?;
            let (ct, aad) = (c.bytes("ct")?, c.bytes("aad")?);
            let tag = if c.detached()? { Some(c.bytes("tag")?) } else { None };
            with_suite!(
                suite,
                A,
                Kdf,
                Kem,
                guard(|| ops::single_shot_open::<A, Kdf, Kem>(&p, &ct, tag.as_deref(), &aad))
            )
        }
        "set_seq" => {
            let h = st.need_ctx(c.str("ctx")?)?;
            let seq = parse_seq(c.str("seq")?)?;
            let ovf = c.boolean("ovf")?;
            let mut g = lock(&h);
            guard(|| {
                g.set_seq(seq, ovf);
                Ok(obj! {})
            })
        }
        "get_seq" => {
            let h = st.need_ctx(c.str("ctx")?)?;
            let g = lock(&h);
            let (kem, kdf, aead) = g.suite();
            Ok(obj! {"role": g.role(), "suite": vec![kem, kdf, aead]})
        }
        "drop" => op_drop(st, c),
        "ledger" => Ok(obj! {}),
        "prim" => prim::run(c),
        "kdf_labeled_extract" => {
            let kdf = c.int("kdf")?;
            let (salt, suite_id) = (c.bytes("salt")?, c.bytes("suite_id")?);
            let (label, ikm) = (c.bytes("label")?, c.bytes("ikm")?);
            with_kdf!(
                kdf,
                Kdf,
                guard(|| ops::kdf_labeled_extract::<Kdf>(&salt, &suite_id, &label, &ikm))
            )
        }
        "kdf_extract_and_expand" => {
            let kdf = c.int("kdf")?;
            let (ikm, suite_id, info) = (c.bytes("ikm")?, c.bytes("suite_id")?, c.bytes("info")?);
            let len = c.len("len")?;
            with_kdf!(
                kdf,
                Kdf,
                guard(|| ops::kdf_extract_and_expand::<Kdf>(&ikm, &suite_id, &info, len))
            )
        }
        "soak" => {
            // Long runs on one session inside this process (no protocol round trip per call):
            //   mode "reject":    `n` deliveries of the same bogus message (allocating and in-place forms alternate);
            //                     every one must be refused with OpenError and leave the counter where it was
            //   mode "roundtrip": `n` messages sealed by "ctx_s" and opened by "ctx", each must come back
            // Reports how many iterations conformed ("done") and, if fewer than n, what the first other one did.
            //   mode "export":    `n` exports with the same arguments from "ctx" (either role): all equal to the first
            //   mode "refuse":    `n` seals on the exhausted sender "ctx": all MessageLimitReached, buffer untouched
            let n = c.int("n")?;
            let aad = c.bytes("aad")?;
            let hr = st.need_ctx(c.str("ctx")?)?;
            let mut r = lock(&hr);
            let mode = c.str("mode")?;
            if mode == "export" {
                let len = c.len("len")?;
                return guard(|| {
                    let mut first = vec![0u8; len];
                    r.export(&aad, &mut first)?;
                    let mut out = vec![0u8; len];
                    for i in 1..n {
                        out.iter_mut().for_each(|b| *b = 0);
                        let res = r.export(&aad, &mut out);
                        if res.is_err() || out != first {
                            let what = match res {
                                Ok(()) => "another value".to_string(),
                                Err(ops::CtxErr(_, e)) => format!("{:?}", e),
                            };
                            return Ok(obj! {"done": i, "bad": what});
                        }
                    }
                    Ok(obj! {"done": n, "out": hexv(&first)})
                });
            }
            if mode == "bulk" {
                // `n` messages of `size` bytes sealed in place on the sender "ctx" (one buffer, re-filled): every one
                // must succeed and advance the counter by one - whatever the total number of bytes
                if r.role() != "S" {
                    return Err(tool("soak bulk: ctx must be a sender context"));
                }
                let size = c.len("size")?;
                let start = r.get_seq().0;
                return guard(|| {
                    let mut buf = vec![0x5au8; size];
                    for i in 0..n {
                        let res = r.seal_detached(&mut buf, &aad);
                        if res.is_err() || r.get_seq() != (start + i + 1, false) {
                            let what = match res {
                                Ok(_) => "counter state".to_string(),
                                Err(ops::CtxErr(_, e)) => format!("{:?}", e),
                            };
                            return Ok(obj! {"done": i, "bad": what, "bytes_before": (i as u128 * size as u128).to_string()});
                        }
                    }
                    Ok(obj! {"done": n})
                });
            }
            if mode == "refuse" {
                if r.role() != "S" {
                    return Err(tool("soak refuse: ctx must be a sender context"));
                }
                let pt = c.bytes("pt")?;
                let before = r.get_seq();
                return guard(|| {
                    for i in 0..n {
                        let mut buf = pt.clone();
                        let res = if i % 2 == 0 { r.seal_alloc(&pt, &aad).map(|_| ()) } else { r.seal_detached(&mut buf, &aad).map(|_| ()) };
                        let ok = matches!(res, Err(ops::CtxErr(_, hpke::HpkeError::MessageLimitReached)));
                        if !ok || buf != pt || r.get_seq() != before {
                            let what = match res {
                                Ok(()) => "sealed".to_string(),
                                Err(ops::CtxErr(_, e)) => format!("{:?}", e),
                            };
                            return Ok(obj! {"done": i, "bad": what});
                        }
                    }
                    Ok(obj! {"done": n})
                });
            }
            if r.role() != "R" {
                return Err(tool("soak: ctx must be a receiver context"));
            }
            match mode {
                "reject" => {
                    let ct = c.bytes("ct")?;
                    let before = r.get_seq();
                    guard(|| {
                        for i in 0..n {
                            let res = if i % 2 == 0 || ct.len() < 16 {
                                r.open_alloc(&ct, &aad).map(|_| ())
                            } else {
                                let (body, tag) = ct.split_at(ct.len() - 16);
                                let mut buf = body.to_vec();
                                r.open_detached(&mut buf, &aad, tag)
                            };
                            let ok = matches!(res, Err(ops::CtxErr(_, hpke::HpkeError::OpenError)));
                            if !ok || r.get_seq() != before {
                                let what = match res {
                                    Ok(()) => "accepted".to_string(),
                                    Err(ops::CtxErr(_, e)) => format!("{:?}", e),
                                };
                                let (sq, ov) = r.get_seq();
                                return Ok(obj! {"done": i, "bad": what, "seq": format!("{:016x}", sq), "ovf": ov});
                            }
                        }
                        Ok(obj! {"done": n})
                    })
                }
                "roundtrip" => {
                    let pt = c.bytes("pt")?;
                    let hs = st.need_ctx(c.str("ctx_s")?)?;
                    let mut s_ = lock(&hs);
                    if s_.role() != "S" {
                        return Err(tool("soak: ctx_s must be a sender context"));
                    }
                    let (s0, r0) = (s_.get_seq().0, r.get_seq().0);
                    guard(|| {
                        for i in 0..n {
                            let mut p = pt.clone();
                            p.extend_from_slice(&i.to_be_bytes());
                            let bad = match s_.seal_alloc(&p, &aad) {
                                Err(ops::CtxErr(_, e)) => Some(format!("seal: {:?}", e)),
                                Ok(ct) => match r.open_alloc(&ct, &aad) {
                                    Err(ops::CtxErr(_, e)) => Some(format!("open: {:?}", e)),
                                    Ok(q) if q != p => Some("open returned another plaintext".to_string()),
                                    Ok(_) => None,
                                },
                            };
                            let counters = s_.get_seq() == (s0 + i + 1, false) && r.get_seq() == (r0 + i + 1, false);
                            if bad.is_some() || !counters {
                                return Ok(obj! {"done": i, "bad": bad.unwrap_or_else(|| "counter state".to_string())});
                            }
                        }
                        Ok(obj! {"done": n})
                    })
                }
                other => Err(tool(format!("soak: unknown mode {:?}", other))),
            }
        }
        "par" => {
            if nested {
                return Err(tool("par inside par is not allowed"));
            }
            op_par(st, c)
        }
        "par_export" => op_par_export(st, c),
        "static_asserts" => {
            ops::static_asserts();
            Ok(obj! {})
        }
        other => Err(tool(format!("unknown op {:?}", other))),
    }
}

// ------------------------------------------------------------------------------------------------
// Events
// ------------------------------------------------------------------------------------------------

fn ledger_json() -> Value {
    let l = hpke::verif::ledger();
    Value::Array(l.iter().map(|(d, dirty)| json!([d, dirty])).collect())
}

/// Executes one command and builds its event. `local` is `Some` inside a `par` list.
///
/// `with_ledger`: attach the drop ledger. Off for events inside `par` unless the par command asks
/// for it, because there the reading races with the other threads.
fn exec_cmd(
    st: &State,
    cmd: &Value,
    i: usize,
    local: Option<&[Value]>,
    with_ledger: bool,
) -> Value {
    let mut ev = Obj::new();
    ev.insert("i".into(), json!(i));

    let res: OpResult = (|| {
        let o = cmd
            .as_object()
            .ok_or_else(|| tool("command is not a JSON object"))?;
        ev.insert("op".into(), o.get("op").cloned().unwrap_or(Value::Null));
        if let Some(t) = o.get("thread") {
            ev.insert("thread".into(), t.clone());
            if local.is_some() {
                return Err(tool("\"thread\" is not allowed inside par"));
            }
        }
        let op = o
            .get("op")
            .and_then(Value::as_str)
            .ok_or_else(|| tool("missing string field \"op\""))?;
        // No writer can be waiting while a command runs (the log only grows between commands), so
        // holding the read lock for the whole command is fine, also from several par threads.
        let log = st.log.read().unwrap_or_else(|e| e.into_inner());
        let c = Cmd { o, env: Env { global: &log, local } };
        // Safety net: a panic outside `guard` is a bug of this tool, not of the library
        match catch_unwind(AssertUnwindSafe(|| exec_op(st, op, &c, local.is_some()))) {
            Ok(r) => r,
            Err(p) => Err(tool(format!(
                "executor bug: panic outside a library call: {}",
                panic_message(p)
            ))),
        }
    })();
    if !ev.contains_key("op") {
        ev.insert("op".into(), Value::Null);
    }

    match res {
        Ok(ok) => {
            ev.insert("ok".into(), Value::Object(ok));
        }
        Err(Stop::Tool(m)) => {
            ev.insert("tool_error".into(), Value::String(m));
        }
        Err(Stop::Panic(m)) => {
            ev.insert("panic".into(), Value::String(m));
        }
        Err(Stop::Err { variant, payload, stage, extra }) => {
            ev.insert(
                "err".into(),
                json!({"variant": variant, "payload": payload, "stage": stage}),
            );
            for (k, v) in extra {
                ev.insert(k, v);
            }
        }
    }

    // State of the named context after the op, if it (still) exists
    if let Some(name) = cmd.get("ctx").and_then(Value::as_str) {
        if let Some(h) = st.get_ctx(name) {
            let g = lock(&h);
            if let Ok((seq, ovf)) = catch_unwind(AssertUnwindSafe(|| g.get_seq())) {
                ev.insert("seq".into(), Value::String(format!("{:016x}", seq)));
                ev.insert("ovf".into(), Value::Bool(ovf));
            }
        }
    }
    if with_ledger {
        ev.insert("ledger".into(), ledger_json());
    }
    Value::Object(ev)
}

// ------------------------------------------------------------------------------------------------
// Main loop and persistent worker threads
// ------------------------------------------------------------------------------------------------

struct Worker {
    jobs: mpsc::Sender<(Value, usize)>,
    results: mpsc::Receiver<Value>,
}

fn spawn_worker(st: Arc<State>, t: u64) -> Worker {
    let (jobs_tx, jobs_rx) = mpsc::channel::<(Value, usize)>();
    let (res_tx, res_rx) = mpsc::channel::<Value>();
    thread::Builder::new()
        .name(format!("worker-{}", t))
        .stack_size(THREAD_STACK)
        .spawn(move || {
            for (cmd, i) in jobs_rx {
                let ev = exec_cmd(&st, &cmd, i, None, true);
                if res_tx.send(ev).is_err() {
                    break;
                }
            }
        })
        .expect("cannot spawn worker thread");
    Worker { jobs: jobs_tx, results: res_rx }
}

fn tool_event(i: usize, cmd: Option<&Value>, msg: String) -> Value {
    let mut ev = Obj::new();
    ev.insert("i".into(), json!(i));
    ev.insert(
        "op".into(),
        cmd.and_then(|c| c.get("op")).cloned().unwrap_or(Value::Null),
    );
    if let Some(t) = cmd.and_then(|c| c.get("thread")) {
        ev.insert("thread".into(), t.clone());
    }
    ev.insert("tool_error".into(), Value::String(msg));
    ev.insert("ledger".into(), ledger_json());
    Value::Object(ev)
}

fn main() {
    // Library panics are caught and reported in events; nothing may be printed for them
    std::panic::set_hook(Box::new(|_| {}));

    let input: Box<dyn Read> = match std::env::args().nth(1) {
        Some(path) => match std::fs::File::open(&path) {
            Ok(f) => Box::new(f),
            Err(e) => {
                eprintln!("hpke-exec: cannot open {}: {}", path, e);
                std::process::exit(1);
            }
        },
        None => Box::new(std::io::stdin()),
    };
    let flush_each = std::env::var("HPKE_EXEC_FLUSH").map(|v| v == "1").unwrap_or(false);

    let st = Arc::new(State {
        ctxs: Mutex::new(HashMap::new()),
        log: RwLock::new(Vec::new()),
    });
    let mut workers: HashMap<u64, Worker> = HashMap::new();
    let stdout = std::io::stdout();
    let mut out = BufWriter::with_capacity(1 << 16, stdout.lock());
    let mut exit_code = 0;

    let mut i = 0usize;
    for line in BufReader::with_capacity(1 << 16, input).lines() {
        let line = match line {
            Ok(l) => l,
            Err(e) => {
                eprintln!("hpke-exec: unreadable input: {}", e);
                exit_code = 1;
                break;
            }
        };
        let text = line.trim();
        // Blank lines and #-comments are skipped and do not count
        if text.is_empty() || text.starts_with('#') {
            continue;
        }

        let ev = match serde_json::from_str::<Value>(text) {
            Err(e) => tool_event(i, None, format!("bad JSON: {}", e)),
            Ok(cmd) => match cmd.get("thread") {
                None => exec_cmd(&st, &cmd, i, None, true),
                Some(t) => match t.as_u64().filter(|t| (1..=64).contains(t)) {
                    None => tool_event(i, Some(&cmd), "thread must be an integer 1..=64".into()),
                    Some(t) => {
                        let w = workers
                            .entry(t)
                            .or_insert_with(|| spawn_worker(Arc::clone(&st), t));
                        let sent = w.jobs.send((cmd.clone(), i)).is_ok();
                        match (sent, w.results.recv()) {
                            (true, Ok(ev)) => ev,
                            _ => {
                                workers.remove(&t);
                                tool_event(i, Some(&cmd), format!("worker thread {} died", t))
                            }
                        }
                    }
                },
            },
        };

        let text = serde_json::to_string(&ev).expect("events are serializable");
        if out.write_all(text.as_bytes()).and_then(|_| out.write_all(b"\n")).is_err() {
            // stdout is gone; nothing sensible left to do
            std::process::exit(0);
        }
        if flush_each {
            let _ = out.flush();
        }
        st.log.write().unwrap_or_else(|e| e.into_inner()).push(ev);
        i += 1;
    }
    let _ = out.flush();
    drop(out);
    // Do not run destructors of remaining contexts / join workers: the run is over
    std::process::exit(exit_code);
}


/// An anonymous, zero-filled, lazily backed mapping (Linux): lets `seal_huge` hand the library a slice of 2^36+ bytes.
struct HugeMap {
    ptr: *mut u8,
    len: usize,
}

extern "C" {
    fn mmap(addr: *mut u8, len: usize, prot: i32, flags: i32, fd: i32, off: i64) -> *mut u8;
    fn munmap(addr: *mut u8, len: usize) -> i32;
}

impl HugeMap {
    fn new(len: usize) -> Option<HugeMap> {
        const PROT_READ: i32 = 1;
        const PROT_WRITE: i32 = 2;
        const MAP_PRIVATE: i32 = 0x02;
        const MAP_ANONYMOUS: i32 = 0x20;
        const MAP_NORESERVE: i32 = 0x4000;
        let p = unsafe {
            mmap(std::ptr::null_mut(), len, PROT_READ | PROT_WRITE, MAP_PRIVATE | MAP_ANONYMOUS | MAP_NORESERVE, -1, 0)
        };
        if p as isize == -1 || p.is_null() {
            None
        } else {
            Some(HugeMap { ptr: p, len })
        }
    }
}

impl Drop for HugeMap {
    fn drop(&mut self) {
        unsafe {
            munmap(self.ptr, self.len);
        }
    }
}
