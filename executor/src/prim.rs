//! Op `prim`: the RustCrypto primitives, called DIRECTLY (not through hpke). They give the Python
//! oracle something independent of hpke to be cross-checked against.
//!
//! Errors of these crates are reported as `err` events with stage "main" and the variants
//! "InvalidLength" (hkdf expand), "InvalidPrkLength" (hkdf from_prk), "InvalidKeyLength",
//! "InvalidNonceLength", "AeadError", "InvalidSecretKey", "InvalidPublicKey".

use crate::args::Obj;
use crate::cmd::Cmd;
use crate::ops::{guard, hexv, other_err, tool, OpResult, Stop};

use aead::{AeadInPlace, KeyInit};
use generic_array::{typenum::Unsigned, GenericArray};
use hkdf::Hkdf;
use sha2::{Sha256, Sha384, Sha512};

macro_rules! with_hash {
    ($name:expr, $H:ident, $body:expr) => {
        match $name {
            "sha256" => { type $H = Sha256; $body }
            "sha384" => { type $H = Sha384; $body }
            "sha512" => { type $H = Sha512; $body }
            other => Err(tool(format!("unknown hash {:?}", other))),
        }
    };
}

fn out(b: &[u8]) -> OpResult {
    let mut o = Obj::new();
    o.insert("out".into(), hexv(b));
    Ok(o)
}

fn aead_seal<T: AeadInPlace + KeyInit>(key: &[u8], nonce: &[u8], aad: &[u8], pt: &[u8]) -> OpResult {
    let cipher = T::new_from_slice(key).map_err(|_| other_err("InvalidKeyLength"))?;
    if nonce.len() != T::NonceSize::to_usize() {
        return Err(other_err("InvalidNonceLength"));
    }
    let mut buf = pt.to_vec();
    let tag = cipher
        .encrypt_in_place_detached(GenericArray::from_slice(nonce), aad, &mut buf)
        .map_err(|_| other_err("AeadError"))?;
    buf.extend_from_slice(&tag);
    out(&buf)
}

fn arr32(b: &[u8], what: &str) -> Result<[u8; 32], Stop> {
    <[u8; 32]>::try_from(b).map_err(|_| tool(format!("{} must be 32 bytes, got {}", what, b.len())))
}

macro_rules! nist_fns {
    ($pk_fn:ident, $dh_fn:ident, $c:ident) => {
        fn $pk_fn(sk: &[u8]) -> OpResult {
            use $c::elliptic_curve::sec1::ToEncodedPoint;
            if sk.len() != <$c::FieldBytes>::default().len() {
                return Err(other_err("InvalidSecretKey"));
            }
            let sk = $c::SecretKey::from_slice(sk).map_err(|_| other_err("InvalidSecretKey"))?;
            let pk = sk.public_key();
            out(pk.as_affine().to_encoded_point(false).as_bytes())
        }
        fn $dh_fn(sk: &[u8], pk: &[u8]) -> OpResult {
            if sk.len() != <$c::FieldBytes>::default().len() {
                return Err(other_err("InvalidSecretKey"));
            }
            let sk = $c::SecretKey::from_slice(sk).map_err(|_| other_err("InvalidSecretKey"))?;
            let pk = $c::PublicKey::from_sec1_bytes(pk).map_err(|_| other_err("InvalidPublicKey"))?;
            let ss = $c::ecdh::diffie_hellman(sk.to_nonzero_scalar(), pk.as_affine());
            out(ss.raw_secret_bytes().as_slice())
        }
    };
}
nist_fns!(p256_pk, p256_dh, p256);
nist_fns!(p384_pk, p384_dh, p384);
nist_fns!(p521_pk, p521_dh, p521);

/// Runs one primitive: arguments are resolved first (tool code), the primitive itself runs under
/// `guard`.
pub fn run(c: &Cmd) -> OpResult {
    let name = c.str("name")?;
    match name {
        "hkdf_extract" => {
            let hash = c.str("hash")?;
            let (salt, ikm) = (c.bytes("salt")?, c.bytes("ikm")?);
            with_hash!(hash, H, guard(|| {
                let (prk, _) = Hkdf::<H>::extract(Some(&salt), &ikm);
                out(prk.as_slice())
            }))
        }
        "hkdf_expand" => {
            let hash = c.str("hash")?;
            let (prk, info) = (c.bytes("prk")?, c.bytes("info")?);
            let len = c.len("len")?;
            with_hash!(hash, H, guard(|| {
                let h = Hkdf::<H>::from_prk(&prk).map_err(|_| other_err("InvalidPrkLength"))?;
                let mut okm = vec![0u8; len];
                h.expand(&info, &mut okm).map_err(|_| other_err("InvalidLength"))?;
                out(&okm)
            }))
        }
        "aead_seal" => {
            let id = c.int("aead")?;
            let (key, nonce) = (c.bytes("key")?, c.bytes("nonce")?);
            let (aad, pt) = (c.bytes("aad")?, c.bytes("pt")?);
            match id {
                1 => guard(|| aead_seal::<aes_gcm::Aes128Gcm>(&key, &nonce, &aad, &pt)),
                2 => guard(|| aead_seal::<aes_gcm::Aes256Gcm>(&key, &nonce, &aad, &pt)),
                3 => guard(|| {
                    aead_seal::<chacha20poly1305::ChaCha20Poly1305>(&key, &nonce, &aad, &pt)
                }),
                other => Err(tool(format!("prim aead_seal: unknown aead id {}", other))),
            }
        }
        "x25519" => {
            let sk = arr32(&c.bytes("sk")?, "sk")?;
            let pk = arr32(&c.bytes("pk")?, "pk")?;
            guard(|| out(&x25519_dalek::x25519(sk, pk)))
        }
        "x25519_base" => {
            let sk = arr32(&c.bytes("sk")?, "sk")?;
            guard(|| out(&x25519_dalek::x25519(sk, x25519_dalek::X25519_BASEPOINT_BYTES)))
        }
        "nist_pk" => {
            let kem = c.int("kem")?;
            let sk = c.bytes("sk")?;
            match kem {
                16 => guard(|| p256_pk(&sk)),
                17 => guard(|| p384_pk(&sk)),
                18 => guard(|| p521_pk(&sk)),
                other => Err(tool(format!("prim nist_pk: kem {} is not a NIST KEM", other))),
            }
        }
        "nist_dh" => {
            let kem = c.int("kem")?;
            let (sk, pk) = (c.bytes("sk")?, c.bytes("pk")?);
            match kem {
                16 => guard(|| p256_dh(&sk, &pk)),
                17 => guard(|| p384_dh(&sk, &pk)),
                18 => guard(|| p521_dh(&sk, &pk)),
                other => Err(tool(format!("prim nist_dh: kem {} is not a NIST KEM", other))),
            }
        }
        other => Err(tool(format!("unknown prim {:?}", other))),
    }
}
