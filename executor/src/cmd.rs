//! Typed access to the fields of one command object. Every failure here is a tool_error.

use crate::args::{resolve, Env, Obj};
use crate::ops::{tool, Stop};
use serde_json::Value;

/// Upper bound for `len` / `buflen` style integers (protects against allocation bombs)
const MAX_LEN: u64 = 1 << 26;

pub struct Cmd<'a> {
    pub o: &'a Obj,
    pub env: Env<'a>,
}

impl<'a> Cmd<'a> {
    fn field(&self, k: &str) -> Option<&'a Value> {
        self.o.get(k).filter(|v| !v.is_null())
    }

    pub fn has(&self, k: &str) -> bool {
        self.field(k).is_some()
    }

    fn need(&self, k: &str) -> Result<&'a Value, Stop> {
        self.field(k).ok_or_else(|| tool(format!("missing field {:?}", k)))
    }

    pub fn value(&self, k: &str) -> Result<&'a Value, Stop> {
        self.need(k)
    }

    /// Required ARG
    pub fn bytes(&self, k: &str) -> Result<Vec<u8>, Stop> {
        resolve(self.need(k)?, &self.env).map_err(|e| tool(format!("field {:?}: {}", k, e)))
    }

    /// Optional ARG (absent or null -> None)
    pub fn opt_bytes(&self, k: &str) -> Result<Option<Vec<u8>>, Stop> {
        match self.field(k) {
            None => Ok(None),
            Some(v) => resolve(v, &self.env)
                .map(Some)
                .map_err(|e| tool(format!("field {:?}: {}", k, e))),
        }
    }

    /// Optional ARG, absent = empty
    pub fn bytes_or_empty(&self, k: &str) -> Result<Vec<u8>, Stop> {
        Ok(self.opt_bytes(k)?.unwrap_or_default())
    }

    /// Resolves a bare ARG value that is not a direct field (elements of `scan`)
    pub fn resolve_value(&self, v: &Value, what: &str) -> Result<Vec<u8>, Stop> {
        resolve(v, &self.env).map_err(|e| tool(format!("{}: {}", what, e)))
    }

    pub fn int(&self, k: &str) -> Result<u64, Stop> {
        self.need(k)?
            .as_u64()
            .ok_or_else(|| tool(format!("field {:?} must be a non-negative integer", k)))
    }

    /// A length-like integer
    pub fn len(&self, k: &str) -> Result<usize, Stop> {
        let n = self.int(k)?;
        if n > MAX_LEN {
            return Err(tool(format!("field {:?} = {} exceeds the limit {}", k, n, MAX_LEN)));
        }
        Ok(n as usize)
    }

    pub fn str(&self, k: &str) -> Result<&'a str, Stop> {
        self.need(k)?
            .as_str()
            .ok_or_else(|| tool(format!("field {:?} must be a string", k)))
    }

    pub fn boolean(&self, k: &str) -> Result<bool, Stop> {
        self.need(k)?
            .as_bool()
            .ok_or_else(|| tool(format!("field {:?} must be a boolean", k)))
    }

    /// `"suite":[KEM,KDF,AEAD]` -> (kem, kdf, aead)
    pub fn suite(&self) -> Result<(u64, u64, u64), Stop> {
        let a = self
            .need("suite")?
            .as_array()
            .filter(|a| a.len() == 3)
            .ok_or_else(|| tool("suite must be [KEM,KDF,AEAD]"))?;
        let id = |v: &Value| v.as_u64().ok_or_else(|| tool("suite ids must be integers"));
        Ok((id(&a[0])?, id(&a[1])?, id(&a[2])?))
    }

    /// `"mode"`: 0 Base, 1 Psk, 2 Auth, 3 AuthPsk
    pub fn mode(&self) -> Result<u64, Stop> {
        let m = self.int("mode")?;
        if m > 3 {
            return Err(tool(format!("unknown mode {}", m)));
        }
        Ok(m)
    }

    /// `"form"`: true = "detached", false = "alloc"
    pub fn detached(&self) -> Result<bool, Stop> {
        match self.str("form")? {
            "alloc" => Ok(false),
            "detached" => Ok(true),
            other => Err(tool(format!("form must be \"alloc\" or \"detached\", got {:?}", other))),
        }
    }
}
