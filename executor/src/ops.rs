//! Generic wrappers around the real `hpke` API, one per protocol op, and the macros that map RFC 9180
//! numeric ids to the library's type-level ciphersuites. No HPKE logic lives here: every function
//! deserializes its inputs with the library, calls the library, and serializes what came back.
//!
//! Everything in this file is meant to run inside [`guard`], i.e. under `catch_unwind`.

use crate::args::{hex_encode, Obj};

use hpke::{
    aead::{Aead, AeadCtxR, AeadCtxS, AeadTag},
    kdf::Kdf as KdfTrait,
    kem::{Kem as KemTrait, SharedSecret},
    rand_core::{CryptoRng, RngCore},
    Deserializable, HpkeError, OpModeR, OpModeS, PskBundle, Serializable,
};
use serde_json::{json, Value};
use std::panic::{catch_unwind, AssertUnwindSafe};

// ------------------------------------------------------------------------------------------------
// Outcomes
// ------------------------------------------------------------------------------------------------

/// Everything that is not an `ok`
pub enum Stop {
    /// The command itself was unusable (tool-level problem)
    Tool(String),
    /// The library panicked
    Panic(String),
    /// The library returned an error
    Err {
        variant: String,
        payload: Vec<u64>,
        stage: String,
        /// Extra fields placed next to "err" in the event (`buf_after`, `drawn`)
        extra: Obj,
    },
}

pub type OpResult = Result<Obj, Stop>;

pub fn tool<S: Into<String>>(s: S) -> Stop {
    Stop::Tool(s.into())
}

/// HpkeError -> err outcome. `stage` says which library call failed.
pub fn herr(stage: &str, e: HpkeError) -> Stop {
    let (variant, payload) = match e {
        HpkeError::MessageLimitReached => ("MessageLimitReached", vec![]),
        HpkeError::OpenError => ("OpenError", vec![]),
        HpkeError::SealError => ("SealError", vec![]),
        HpkeError::KdfOutputTooLong => ("KdfOutputTooLong", vec![]),
        HpkeError::ValidationError => ("ValidationError", vec![]),
        HpkeError::EncapError => ("EncapError", vec![]),
        HpkeError::DecapError => ("DecapError", vec![]),
        HpkeError::IncorrectInputLength(exp, given) => {
            ("IncorrectInputLength", vec![exp as u64, given as u64])
        }
        HpkeError::InvalidPskBundle => ("InvalidPskBundle", vec![]),
    };
    Stop::Err {
        variant: variant.into(),
        payload,
        stage: stage.into(),
        extra: Obj::new(),
    }
}

/// An error of a non-hpke library call (hkdf::InvalidLength and friends; `prim` and `kdf_*` ops)
pub fn other_err(variant: &str) -> Stop {
    Stop::Err {
        variant: variant.into(),
        payload: vec![],
        stage: "main".into(),
        extra: Obj::new(),
    }
}

/// Adds a field next to "err" (no-op for other outcomes)
pub fn with_extra(s: Stop, key: &str, v: Value) -> Stop {
    match s {
        Stop::Err { variant, payload, stage, mut extra } => {
            extra.insert(key.into(), v);
            Stop::Err { variant, payload, stage, extra }
        }
        other => other,
    }
}

pub fn panic_message(p: Box<dyn std::any::Any + Send>) -> String {
    if let Some(s) = p.downcast_ref::<&'static str>() {
        (*s).to_string()
    } else if let Some(s) = p.downcast_ref::<String>() {
        s.clone()
    } else {
        "<non-string panic payload>".to_string()
    }
}

/// Runs library-calling code under `catch_unwind`; a panic becomes a `panic` outcome
pub fn guard<T>(f: impl FnOnce() -> Result<T, Stop>) -> Result<T, Stop> {
    match catch_unwind(AssertUnwindSafe(f)) {
        Ok(r) => r,
        Err(p) => Err(Stop::Panic(panic_message(p))),
    }
}

pub fn hexv(b: &[u8]) -> Value {
    Value::String(hex_encode(b))
}

macro_rules! obj {
    ($($k:literal : $v:expr),* $(,)?) => {{
        #[allow(unused_mut)]
        let mut o = $crate::args::Obj::new();
        $( o.insert($k.to_string(), ::serde_json::Value::from($v)); )*
        o
    }};
}

// ------------------------------------------------------------------------------------------------
// id -> type dispatch
// ------------------------------------------------------------------------------------------------

macro_rules! with_kem {
    ($id:expr, $K:ident, $body:expr) => {
        match $id {
            32u64 => { type $K = ::hpke::kem::X25519HkdfSha256; $body }
            16u64 => { type $K = ::hpke::kem::DhP256HkdfSha256; $body }
            17u64 => { type $K = ::hpke::kem::DhP384HkdfSha384; $body }
            18u64 => { type $K = ::hpke::kem::DhP521HkdfSha512; $body }
            other => Err($crate::ops::tool(format!("unknown kem id {}", other))),
        }
    };
}

macro_rules! with_kdf {
    ($id:expr, $K:ident, $body:expr) => {
        match $id {
            1u64 => { type $K = ::hpke::kdf::HkdfSha256; $body }
            2u64 => { type $K = ::hpke::kdf::HkdfSha384; $body }
            3u64 => { type $K = ::hpke::kdf::HkdfSha512; $body }
            other => Err($crate::ops::tool(format!("unknown kdf id {}", other))),
        }
    };
}

macro_rules! with_aead {
    ($id:expr, $A:ident, $body:expr) => {
        match $id {
            1u64 => { type $A = ::hpke::aead::AesGcm128; $body }
            2u64 => { type $A = ::hpke::aead::AesGcm256; $body }
            3u64 => { type $A = ::hpke::aead::ChaCha20Poly1305; $body }
            65535u64 => { type $A = ::hpke::aead::ExportOnlyAead; $body }
            other => Err($crate::ops::tool(format!("unknown aead id {}", other))),
        }
    };
}

/// `with_suite!((kem,kdf,aead), A, Kdf, Kem, body)`: all 4 x 3 x 4 = 48 combinations
macro_rules! with_suite {
    ($s:expr, $A:ident, $Kdf:ident, $Kem:ident, $body:expr) => {{
        let (kem_id, kdf_id, aead_id): (u64, u64, u64) = $s;
        with_kem!(kem_id, $Kem, with_kdf!(kdf_id, $Kdf, with_aead!(aead_id, $A, $body)))
    }};
}

/// Calls `$m!(A, Kdf, Kem)` for every one of the 48 suites
macro_rules! for_all_suites {
    ($m:ident) => {
        for_all_suites!(@kem $m; ::hpke::kem::X25519HkdfSha256);
        for_all_suites!(@kem $m; ::hpke::kem::DhP256HkdfSha256);
        for_all_suites!(@kem $m; ::hpke::kem::DhP384HkdfSha384);
        for_all_suites!(@kem $m; ::hpke::kem::DhP521HkdfSha512);
    };
    (@kem $m:ident; $kem:ty) => {
        for_all_suites!(@kdf $m; $kem; ::hpke::kdf::HkdfSha256);
        for_all_suites!(@kdf $m; $kem; ::hpke::kdf::HkdfSha384);
        for_all_suites!(@kdf $m; $kem; ::hpke::kdf::HkdfSha512);
    };
    (@kdf $m:ident; $kem:ty; $kdf:ty) => {
        $m!(::hpke::aead::AesGcm128, $kdf, $kem);
        $m!(::hpke::aead::AesGcm256, $kdf, $kem);
        $m!(::hpke::aead::ChaCha20Poly1305, $kdf, $kem);
        $m!(::hpke::aead::ExportOnlyAead, $kdf, $kem);
    };
}

// ------------------------------------------------------------------------------------------------
// Scripted RNG
// ------------------------------------------------------------------------------------------------

/// Hands out the scripted bytes in order; running dry panics with "scripted rng exhausted"
pub struct ScriptedRng {
    data: Vec<u8>,
    pos: usize,
}

impl ScriptedRng {
    pub fn new(data: Vec<u8>) -> Self {
        ScriptedRng { data, pos: 0 }
    }
    /// Number of bytes consumed so far
    pub fn drawn(&self) -> usize {
        self.pos
    }
}

impl RngCore for ScriptedRng {
    fn next_u32(&mut self) -> u32 {
        let mut b = [0u8; 4];
        self.fill_bytes(&mut b);
        u32::from_le_bytes(b)
    }
    fn next_u64(&mut self) -> u64 {
        let mut b = [0u8; 8];
        self.fill_bytes(&mut b);
        u64::from_le_bytes(b)
    }
    fn fill_bytes(&mut self, dest: &mut [u8]) {
        if self.data.len() - self.pos < dest.len() {
            panic!("scripted rng exhausted");
        }
        dest.copy_from_slice(&self.data[self.pos..self.pos + dest.len()]);
        self.pos += dest.len();
    }
}

impl CryptoRng for ScriptedRng {}

// ------------------------------------------------------------------------------------------------
// Contexts behind a trait object
// ------------------------------------------------------------------------------------------------

/// An error of a context call, tagged with the library call that produced it
pub struct CtxErr(pub &'static str, pub HpkeError);

impl From<CtxErr> for Stop {
    fn from(e: CtxErr) -> Stop {
        herr(e.0, e.1)
    }
}

/// Object-safe view of `AeadCtxS` / `AeadCtxR`. Methods of the wrong role are never called (the
/// caller checks `role()` first and reports a tool_error).
pub trait DynCtx: Send + Sync {
    /// "S" or "R"
    fn role(&self) -> &'static str;
    /// (kem, kdf, aead)
    fn suite(&self) -> (u16, u16, u16);
    fn seal_alloc(&mut self, _pt: &[u8], _aad: &[u8]) -> Result<Vec<u8>, CtxErr> {
        unreachable!("seal on a receiver context")
    }
    /// Seals `buf` in place, returns the tag bytes
    fn seal_detached(&mut self, _buf: &mut [u8], _aad: &[u8]) -> Result<Vec<u8>, CtxErr> {
        unreachable!("seal on a receiver context")
    }
    fn open_alloc(&mut self, _ct: &[u8], _aad: &[u8]) -> Result<Vec<u8>, CtxErr> {
        unreachable!("open on a sender context")
    }
    fn open_detached(&mut self, _buf: &mut [u8], _aad: &[u8], _tag: &[u8]) -> Result<(), CtxErr> {
        unreachable!("open on a sender context")
    }
    fn export(&self, exporter_ctx: &[u8], out: &mut [u8]) -> Result<(), CtxErr>;
    fn set_seq(&mut self, seq: u64, ovf: bool);
    fn get_seq(&self) -> (u64, bool);
}

impl<A, Kdf, Kem> DynCtx for AeadCtxS<A, Kdf, Kem>
where
    A: Aead + 'static,
    Kdf: KdfTrait + 'static,
    Kem: KemTrait + 'static,
    AeadCtxS<A, Kdf, Kem>: Send + Sync,
{
    fn role(&self) -> &'static str {
        "S"
    }
    fn suite(&self) -> (u16, u16, u16) {
        (Kem::KEM_ID, Kdf::KDF_ID, A::AEAD_ID)
    }
    fn seal_alloc(&mut self, pt: &[u8], aad: &[u8]) -> Result<Vec<u8>, CtxErr> {
        self.seal(pt, aad).map_err(|e| CtxErr("main", e))
    }
    fn seal_detached(&mut self, buf: &mut [u8], aad: &[u8]) -> Result<Vec<u8>, CtxErr> {
        let tag = self.seal_in_place_detached(buf, aad).map_err(|e| CtxErr("main", e))?;
        Ok(tag.to_bytes().to_vec())
    }
    fn export(&self, exporter_ctx: &[u8], out: &mut [u8]) -> Result<(), CtxErr> {
        AeadCtxS::export(self, exporter_ctx, out).map_err(|e| CtxErr("main", e))
    }
    fn set_seq(&mut self, seq: u64, ovf: bool) {
        self.verif_set_seq_state(seq, ovf)
    }
    fn get_seq(&self) -> (u64, bool) {
        self.verif_seq_state()
    }
}

impl<A, Kdf, Kem> DynCtx for AeadCtxR<A, Kdf, Kem>
where
    A: Aead + 'static,
    Kdf: KdfTrait + 'static,
    Kem: KemTrait + 'static,
    AeadCtxR<A, Kdf, Kem>: Send + Sync,
{
    fn role(&self) -> &'static str {
        "R"
    }
    fn suite(&self) -> (u16, u16, u16) {
        (Kem::KEM_ID, Kdf::KDF_ID, A::AEAD_ID)
    }
    fn open_alloc(&mut self, ct: &[u8], aad: &[u8]) -> Result<Vec<u8>, CtxErr> {
        self.open(ct, aad).map_err(|e| CtxErr("main", e))
    }
    fn open_detached(&mut self, buf: &mut [u8], aad: &[u8], tag: &[u8]) -> Result<(), CtxErr> {
        let tag = AeadTag::<A>::from_bytes(tag).map_err(|e| CtxErr("deser:tag", e))?;
        self.open_in_place_detached(buf, aad, &tag).map_err(|e| CtxErr("main", e))
    }
    fn export(&self, exporter_ctx: &[u8], out: &mut [u8]) -> Result<(), CtxErr> {
        AeadCtxR::export(self, exporter_ctx, out).map_err(|e| CtxErr("main", e))
    }
    fn set_seq(&mut self, seq: u64, ovf: bool) {
        self.verif_set_seq_state(seq, ovf)
    }
    fn get_seq(&self) -> (u64, bool) {
        self.verif_seq_state()
    }
}

// ------------------------------------------------------------------------------------------------
// Helpers
// ------------------------------------------------------------------------------------------------

fn de<T: Deserializable>(stage: &str, bytes: &[u8]) -> Result<T, Stop> {
    T::from_bytes(bytes).map_err(|e| herr(stage, e))
}

fn ser<T: Serializable>(v: &T) -> Value {
    hexv(v.to_bytes().as_slice())
}

fn bundle<'a>(psk: &'a [u8], psk_id: &'a [u8]) -> Result<PskBundle<'a>, Stop> {
    PskBundle::new(psk, psk_id).map_err(|e| herr("psk_bundle", e))
}

/// Everything `setup_s` / `single_shot_seal` need besides the suite and the rng
pub struct SenderParams {
    pub mode: u64,
    pub pk_r: Vec<u8>,
    pub info: Vec<u8>,
    pub psk: Vec<u8>,
    pub psk_id: Vec<u8>,
    pub sk_s: Option<Vec<u8>>,
    pub pk_s: Option<Vec<u8>>,
}

/// Everything `setup_r` / `single_shot_open` need besides the suite
pub struct ReceiverParams {
    pub mode: u64,
    pub sk_r: Vec<u8>,
    pub enc: Vec<u8>,
    pub info: Vec<u8>,
    pub psk: Vec<u8>,
    pub psk_id: Vec<u8>,
    pub pk_s: Option<Vec<u8>>,
}

// Preparatory order on the sender side: pk_r, then sk_s, pk_s (modes 2,3), then the PSK bundle
// (modes 1,3). The first failure is the one reported.
fn sender_inputs<'a, Kem: KemTrait>(
    p: &'a SenderParams,
) -> Result<(Kem::PublicKey, OpModeS<'a, Kem>), Stop> {
    let pk_r = de::<Kem::PublicKey>("deser:pk_r", &p.pk_r)?;
    let keypair = |p: &SenderParams| -> Result<(Kem::PrivateKey, Kem::PublicKey), Stop> {
        let sk = de::<Kem::PrivateKey>("deser:sk_s", p.sk_s.as_deref().expect("checked by caller"))?;
        let pk = de::<Kem::PublicKey>("deser:pk_s", p.pk_s.as_deref().expect("checked by caller"))?;
        Ok((sk, pk))
    };
    let mode = match p.mode {
        0 => OpModeS::Base,
        1 => OpModeS::Psk(bundle(&p.psk, &p.psk_id)?),
        2 => OpModeS::Auth(keypair(p)?),
        3 => {
            let kp = keypair(p)?;
            OpModeS::AuthPsk(kp, bundle(&p.psk, &p.psk_id)?)
        }
        _ => unreachable!("mode checked by caller"),
    };
    Ok((pk_r, mode))
}

// Preparatory order on the receiver side: sk_r, enc, then pk_s (modes 2,3), then the PSK bundle
// (modes 1,3).
fn receiver_inputs<'a, Kem: KemTrait>(
    p: &'a ReceiverParams,
) -> Result<(Kem::PrivateKey, Kem::EncappedKey, OpModeR<'a, Kem>), Stop> {
    let sk_r = de::<Kem::PrivateKey>("deser:sk_r", &p.sk_r)?;
    let enc = de::<Kem::EncappedKey>("deser:enc", &p.enc)?;
    let pk_s = |p: &ReceiverParams| -> Result<Kem::PublicKey, Stop> {
        de::<Kem::PublicKey>("deser:pk_s", p.pk_s.as_deref().expect("checked by caller"))
    };
    let mode = match p.mode {
        0 => OpModeR::Base,
        1 => OpModeR::Psk(bundle(&p.psk, &p.psk_id)?),
        2 => OpModeR::Auth(pk_s(p)?),
        3 => {
            let pk = pk_s(p)?;
            OpModeR::AuthPsk(pk, bundle(&p.psk, &p.psk_id)?)
        }
        _ => unreachable!("mode checked by caller"),
    };
    Ok((sk_r, enc, mode))
}

fn with_drawn(s: Stop, rng: &ScriptedRng) -> Stop {
    with_extra(s, "drawn", json!(rng.drawn()))
}

// ------------------------------------------------------------------------------------------------
// KEM-level ops
// ------------------------------------------------------------------------------------------------

pub fn derive_keypair<Kem: KemTrait>(ikm: &[u8]) -> OpResult {
    let (sk, pk) = Kem::derive_keypair(ikm);
    Ok(obj! {"sk": ser(&sk), "pk": ser(&pk)})
}

pub fn gen_keypair<Kem: KemTrait>(rng: &mut ScriptedRng) -> OpResult {
    let (sk, pk) = Kem::gen_keypair(rng);
    Ok(obj! {"sk": ser(&sk), "pk": ser(&pk), "drawn": rng.drawn()})
}

pub fn sk_to_pk<Kem: KemTrait>(sk: &[u8]) -> OpResult {
    let sk = de::<Kem::PrivateKey>("deser:sk", sk)?;
    let pk = Kem::sk_to_pk(&sk);
    Ok(obj! {"pk": ser(&pk)})
}

pub fn ty_from_bytes<T: Deserializable>(bytes: &[u8]) -> OpResult {
    let v = de::<T>("main", bytes)?;
    Ok(obj! {"reser": ser(&v)})
}

/// `==` on two deserialized values (both orders) and on a clone; booleans as one byte of hex
pub fn key_eq<T: Deserializable + PartialEq + Clone>(a: &[u8], b: &[u8]) -> OpResult {
    let x = de::<T>("deser:a", a)?;
    let y = de::<T>("deser:b", b)?;
    let h = |v: bool| if v { "01" } else { "00" };
    #[allow(clippy::redundant_clone)]
    let c = x.clone() == x;
    Ok(obj! {"eq": h(x == y), "sym": h(y == x), "clone": h(c)})
}

pub fn ty_write_exact<T: Deserializable>(bytes: &[u8], buflen: usize) -> OpResult {
    let v = de::<T>("deser:value", bytes)?;
    let mut buf = vec![0xAAu8; buflen];
    v.write_exact(&mut buf);
    Ok(obj! {"buf": hexv(&buf)})
}

pub fn ty_size<T: Serializable>() -> OpResult {
    Ok(obj! {"size": T::size()})
}

pub fn psk_bundle_new(psk: &[u8], psk_id: &[u8]) -> OpResult {
    PskBundle::new(psk, psk_id).map_err(|e| herr("main", e))?;
    Ok(obj! {})
}

pub fn encap<Kem: KemTrait>(
    pk_r: &[u8],
    sk_s: Option<&[u8]>,
    pk_s: Option<&[u8]>,
    rng: &mut ScriptedRng,
) -> OpResult {
    let pk_r = de::<Kem::PublicKey>("deser:pk_r", pk_r)?;
    let id: Option<(Kem::PrivateKey, Kem::PublicKey)> = match (sk_s, pk_s) {
        (Some(s), Some(p)) => Some((de("deser:sk_s", s)?, de("deser:pk_s", p)?)),
        _ => None,
    };
    let (ss, enc) = Kem::encap(&pk_r, id.as_ref().map(|(s, p)| (s, p)), rng)
        .map_err(|e| with_drawn(herr("main", e), rng))?;
    Ok(obj! {"ss": hexv(&ss.0), "enc": ser(&enc), "drawn": rng.drawn()})
}

fn decap_inner<Kem: KemTrait>(
    sk_r: &[u8],
    pk_s: Option<&[u8]>,
    enc: &[u8],
) -> Result<SharedSecret<Kem>, Stop> {
    let sk_r = de::<Kem::PrivateKey>("deser:sk_r", sk_r)?;
    let enc = de::<Kem::EncappedKey>("deser:enc", enc)?;
    let pk_s: Option<Kem::PublicKey> = match pk_s {
        Some(p) => Some(de("deser:pk_s", p)?),
        None => None,
    };
    Kem::decap(&sk_r, pk_s.as_ref(), &enc).map_err(|e| herr("main", e))
}

pub fn decap<Kem: KemTrait>(sk_r: &[u8], pk_s: Option<&[u8]>, enc: &[u8]) -> OpResult {
    let ss = decap_inner::<Kem>(sk_r, pk_s, enc)?;
    Ok(obj! {"ss": hexv(&ss.0)})
}

/// True iff any 8-byte window of `needle` occurs in `hay`
pub fn any_window_found(hay: &[u8], needle: &[u8]) -> bool {
    if needle.len() < 8 || hay.len() < 8 {
        return false;
    }
    let set: std::collections::HashSet<&[u8]> = needle.windows(8).collect();
    hay.windows(8).any(|w| set.contains(w))
}

/// Copies `len` bytes starting at `p` with volatile reads (so that reads of memory whose value has
/// just been dropped are really performed)
///
/// Safety: `p..p+len` must be inside a live allocation.
pub unsafe fn volatile_copy(p: *const u8, len: usize) -> Vec<u8> {
    let mut v = Vec::with_capacity(len);
    for i in 0..len {
        v.push(std::ptr::read_volatile(p.add(i)));
    }
    v
}

pub fn drop_shared_secret<Kem: KemTrait>(
    sk_r: &[u8],
    pk_s: Option<&[u8]>,
    enc: &[u8],
) -> OpResult {
    let ss = decap_inner::<Kem>(sk_r, pk_s, enc)?;
    let boxed: Box<SharedSecret<Kem>> = Box::new(ss);
    let value = boxed.0.to_vec();
    let raw: *mut SharedSecret<Kem> = Box::into_raw(boxed);
    let layout = std::alloc::Layout::new::<SharedSecret<Kem>>();
    // SAFETY: raw is a live Box allocation of `layout`; the value is dropped exactly once and the
    // memory is freed afterwards without running the destructor again.
    let (before, after, dropped) = unsafe {
        let before = volatile_copy(raw as *const u8, layout.size());
        let dropped = catch_unwind(AssertUnwindSafe(|| std::ptr::drop_in_place(raw)));
        let after = volatile_copy(raw as *const u8, layout.size());
        if layout.size() != 0 {
            std::alloc::dealloc(raw as *mut u8, layout);
        }
        (before, after, dropped)
    };
    if let Err(p) = dropped {
        return Err(Stop::Panic(panic_message(p)));
    }
    Ok(obj! {
        "ss": hexv(&value),
        "found_before": any_window_found(&before, &value),
        "found_after": any_window_found(&after, &value),
    })
}

// ------------------------------------------------------------------------------------------------
// Suite-level ops
// ------------------------------------------------------------------------------------------------

pub fn setup_s<A, Kdf, Kem>(
    p: &SenderParams,
    rng: &mut ScriptedRng,
) -> Result<(Obj, Box<dyn DynCtx>), Stop>
where
    A: Aead + 'static,
    Kdf: KdfTrait + 'static,
    Kem: KemTrait + 'static,
    AeadCtxS<A, Kdf, Kem>: DynCtx,
{
    let (pk_r, mode) = sender_inputs::<Kem>(p)?;
    let (enc, ctx) = hpke::setup_sender::<A, Kdf, Kem, _>(&mode, &pk_r, &p.info, rng)
        .map_err(|e| with_drawn(herr("main", e), rng))?;
    Ok((obj! {"enc": ser(&enc), "drawn": rng.drawn()}, Box::new(ctx)))
}

pub fn setup_r<A, Kdf, Kem>(p: &ReceiverParams) -> Result<(Obj, Box<dyn DynCtx>), Stop>
where
    A: Aead + 'static,
    Kdf: KdfTrait + 'static,
    Kem: KemTrait + 'static,
    AeadCtxR<A, Kdf, Kem>: DynCtx,
{
    let (sk_r, enc, mode) = receiver_inputs::<Kem>(p)?;
    let ctx = hpke::setup_receiver::<A, Kdf, Kem>(&mode, &sk_r, &enc, &p.info)
        .map_err(|e| herr("main", e))?;
    Ok((obj! {}, Box::new(ctx)))
}

pub fn raw_ctx<A, Kdf, Kem>(
    role: &str,
    key: &[u8],
    base_nonce: &[u8],
    exporter_secret: &[u8],
) -> Result<(Obj, Box<dyn DynCtx>), Stop>
where
    A: Aead + 'static,
    Kdf: KdfTrait + 'static,
    Kem: KemTrait + 'static,
    AeadCtxS<A, Kdf, Kem>: DynCtx,
    AeadCtxR<A, Kdf, Kem>: DynCtx,
{
    let boxed: Box<dyn DynCtx> = if role == "S" {
        Box::new(
            AeadCtxS::<A, Kdf, Kem>::verif_from_raw(key, base_nonce, exporter_secret)
                .map_err(|e| herr("main", e))?,
        )
    } else {
        Box::new(
            AeadCtxR::<A, Kdf, Kem>::verif_from_raw(key, base_nonce, exporter_secret)
                .map_err(|e| herr("main", e))?,
        )
    };
    Ok((obj! {}, boxed))
}

pub fn single_shot_seal<A: Aead, Kdf: KdfTrait, Kem: KemTrait>(
    p: &SenderParams,
    rng: &mut ScriptedRng,
    pt: &[u8],
    aad: &[u8],
    detached: bool,
) -> OpResult {
    let (pk_r, mode) = sender_inputs::<Kem>(p)?;
    if detached {
        let mut buf = pt.to_vec();
        let res = hpke::single_shot_seal_in_place_detached::<A, Kdf, Kem, _>(
            &mode, &pk_r, &p.info, &mut buf, aad, rng,
        );
        match res {
            Ok((enc, tag)) => Ok(obj! {
                "enc": ser(&enc), "ct": hexv(&buf), "tag": ser(&tag), "drawn": rng.drawn()
            }),
            Err(e) => Err(with_extra(
                with_drawn(herr("main", e), rng),
                "buf_after",
                hexv(&buf),
            )),
        }
    } else {
        let (enc, ct) = hpke::single_shot_seal::<A, Kdf, Kem, _>(&mode, &pk_r, &p.info, pt, aad, rng)
            .map_err(|e| with_drawn(herr("main", e), rng))?;
        Ok(obj! {"enc": ser(&enc), "ct": hexv(&ct), "drawn": rng.drawn()})
    }
}

// Preparatory order: sk_r, enc, pk_s, PSK bundle (as for setup_r), then the tag (detached form)
pub fn single_shot_open<A: Aead, Kdf: KdfTrait, Kem: KemTrait>(
    p: &ReceiverParams,
    ct: &[u8],
    tag: Option<&[u8]>,
    aad: &[u8],
) -> OpResult {
    let (sk_r, enc, mode) = receiver_inputs::<Kem>(p)?;
    if let Some(tag) = tag {
        let tag = de::<AeadTag<A>>("deser:tag", tag)?;
        let mut buf = ct.to_vec();
        let res = hpke::single_shot_open_in_place_detached::<A, Kdf, Kem>(
            &mode, &sk_r, &enc, &p.info, &mut buf, aad, &tag,
        );
        match res {
            Ok(()) => Ok(obj! {"pt": hexv(&buf)}),
            Err(e) => Err(with_extra(herr("main", e), "buf_after", hexv(&buf))),
        }
    } else {
        let pt = hpke::single_shot_open::<A, Kdf, Kem>(&mode, &sk_r, &enc, &p.info, ct, aad)
            .map_err(|e| herr("main", e))?;
        Ok(obj! {"pt": hexv(&pt)})
    }
}

// ------------------------------------------------------------------------------------------------
// Doc-hidden KDF entry points of the library
// ------------------------------------------------------------------------------------------------

pub fn kdf_labeled_extract<Kdf: KdfTrait>(
    salt: &[u8],
    suite_id: &[u8],
    label: &[u8],
    ikm: &[u8],
) -> OpResult {
    let (prk, _) = hpke::kdf::labeled_extract::<Kdf>(salt, suite_id, label, ikm);
    Ok(obj! {"prk": hexv(prk.as_slice())})
}

pub fn kdf_extract_and_expand<Kdf: KdfTrait>(
    ikm: &[u8],
    suite_id: &[u8],
    info: &[u8],
    len: usize,
) -> OpResult {
    let mut out = vec![0u8; len];
    hpke::kdf::extract_and_expand::<Kdf>(ikm, suite_id, info, &mut out)
        .map_err(|_| other_err("InvalidLength"))?;
    Ok(obj! {"out": hexv(&out)})
}

// ------------------------------------------------------------------------------------------------
// Static Send + Sync assertions (op `static_asserts`): the crate stops compiling if one of the
// library's types stops being Send + Sync.
// ------------------------------------------------------------------------------------------------

fn assert_send_sync<T: Send + Sync>() {}

pub fn static_asserts() {
    macro_rules! suite_asserts {
        ($A:ty, $Kdf:ty, $Kem:ty) => {
            assert_send_sync::<AeadCtxS<$A, $Kdf, $Kem>>();
            assert_send_sync::<AeadCtxR<$A, $Kdf, $Kem>>();
            assert_send_sync::<AeadTag<$A>>();
        };
    }
    for_all_suites!(suite_asserts);

    macro_rules! kem_asserts {
        ($($Kem:ty),*) => {$(
            assert_send_sync::<<$Kem as KemTrait>::PublicKey>();
            assert_send_sync::<<$Kem as KemTrait>::PrivateKey>();
            assert_send_sync::<<$Kem as KemTrait>::EncappedKey>();
            assert_send_sync::<SharedSecret<$Kem>>();
        )*};
    }
    kem_asserts!(
        hpke::kem::X25519HkdfSha256,
        hpke::kem::DhP256HkdfSha256,
        hpke::kem::DhP384HkdfSha384,
        hpke::kem::DhP521HkdfSha512
    );
}
