#!/usr/bin/env python3
"""Regression run over the seeded changes: every kept change must make its property's quick check report a VIOLATION,
and the benign refactorings (seeded/benign/*.diff, applied together) must leave every check green.
Usage: python3 -m selftest.run_seeds [seeds [k/n]|benign|all]     (applies patches to /repo - or $VERIF_REPO - and undoes them)"""
import json
import os
import subprocess
import sys

V = os.path.dirname(os.path.dirname(os.path.abspath(__file__)))


REPO = os.environ.get("VERIF_REPO", "/repo")


def git(*a):
    return subprocess.run(["git", "-C", REPO] + list(a), stdout=subprocess.PIPE, stderr=subprocess.STDOUT, text=True)


def clean():
    if git("status", "--porcelain").stdout.strip():
        raise SystemExit("/repo has uncommitted changes; refusing to run")


def check(p, tier="quick"):
    r = subprocess.run([os.path.join(V, "check"), p, tier], stdout=subprocess.PIPE, stderr=subprocess.STDOUT, text=True, cwd=V)
    lines = [l for l in r.stdout.split("\n") if l.startswith(("OK", "VIOLATION", "TOOL-ERROR"))]
    return r.returncode, (lines[0] if lines else r.stdout[-200:])


def seeds(shard=0, of=1):
    bad = 0
    for k, sid in enumerate(sorted(os.listdir(os.path.join(V, "seeded")))):
        if k % of != shard:
            continue
        d = os.path.join(V, "seeded", sid)
        if not os.path.exists(os.path.join(d, "meta.json")):
            continue
        meta = json.load(open(os.path.join(d, "meta.json")))
        clean()
        if git("apply", os.path.join(d, "patch.diff")).returncode != 0:
            print("%s: patch does not apply" % sid)
            bad += 1
            continue
        try:
            rc, line = check(meta.get("detected_by_check_of", meta["breaks_property"]), meta.get("tier", "quick"))
        finally:
            git("checkout", "--", ".")
        ok = rc == 1 and line.startswith("VIOLATION")
        print("%s -> %s: %s %s" % (sid, meta.get("detected_by_check_of", meta["breaks_property"]), "caught" if ok else "MISSED", line[:120]), flush=True)
        bad += 0 if ok else 1
    return bad


def benign():
    clean()
    bd = os.path.join(V, "seeded", "benign")
    for f in sorted(x for x in os.listdir(bd) if x.endswith(".diff")):
        if git("apply", os.path.join(bd, f)).returncode != 0:
            git("checkout", "--", ".")
            raise SystemExit("benign patch %s does not apply" % f)
    bad = 0
    try:
        r = subprocess.run([os.path.join(V, "tools", "run_all.sh"), "quick", "3"], stdout=subprocess.PIPE, stderr=subprocess.STDOUT, text=True, cwd=V)
        for l in r.stdout.split("\n"):
            if l[:1] == "C":
                print("benign: " + l[:150])
                bad += 0 if " rc=0 " in l else 1
    finally:
        git("checkout", "--", ".")
    return bad


if __name__ == "__main__":
    what = sys.argv[1] if len(sys.argv) > 1 else "all"
    n = 0
    if what in ("benign", "all"):
        n += benign()
    if what in ("seeds", "all"):
        sh = sys.argv[2].split("/") if len(sys.argv) > 2 else ["0", "1"]      # e.g. 1/3: every third seed, starting at the second
        n += seeds(int(sh[0]), int(sh[1]))
    print("run_seeds: %s" % ("all as expected" if n == 0 else "%d unexpected results" % n))
    sys.exit(1 if n else 0)
