#!/usr/bin/env python3
"""Vacuity guard: deliberately broken variants of the specification must be REJECTED by TLC with the
expected property.  Run: python3 -m selftest.spec_mutants"""
import os
import shutil
import sys
import tempfile

sys.path.insert(0, os.path.dirname(os.path.dirname(os.path.abspath(__file__))))
from driver import tlcrun
from driver.common import SPEC
from driver.props import seq_over, SETUP_BASE

MUTANTS = [
    # (name, file, old, new, module, base cfg, overrides, expected violated property (any of))
    ("counter wraps instead of latching", "HpkeCtx.tla",
     "IF st.seq = SeqMax THEN [st EXCEPT !.ovf = TRUE] ELSE [st EXCEPT !.seq = ByteInc(@)]",
     "IF st.seq = SeqMax THEN [st EXCEPT !.seq = Seq0] ELSE [st EXCEPT !.seq = ByteInc(@)]",
     "MC_Seq", "MC_Seq.cfg", seq_over(MaxSeals=3), {"AdvanceByOne", "NoncesDistinct", "Monotone"}),
    ("sender does not advance the counter", "HpkeCtx.tla",
     "              st  |-> AdvanceSeq(st)]", "              st  |-> st]",
     "MC_Seq", "MC_Seq.cfg", seq_over(MaxSeals=3), {"AdvanceByOne", "NoncesDistinct", "ConsecutiveSeqs"}),
    ("receiver ignores the aad", "HpkeCtx.tla",
     "    /\\ tag[1][2][5] = aad\n", "",
     "MC_Seq", "MC_Seq.cfg", seq_over(Menu='"small"', MaxSeals=2, MaxOpens=2), {"TamperedRejected", "AcceptsOnlySealed"}),
    ("receiver advances on failure", "HpkeCtx.tla",
     'ELSE [kind |-> "err", err |-> E_OPEN, pt |-> <<>>, touched |-> TRUE, st |-> st]',
     'ELSE [kind |-> "err", err |-> E_OPEN, pt |-> <<>>, touched |-> TRUE, st |-> AdvanceSeq(st)]',
     "MC_Seq", "MC_Seq.cfg", seq_over(Menu='"small"', MaxSeals=2, MaxOpens=2), {"FailureIsStutter"}),
    ("refusal forgets the latch check in seal", "HpkeCtx.tla",
     "SealStep(st, pt, aad) ==\n    IF st.ovf", "SealStep(st, pt, aad) ==\n    IF FALSE",
     "MC_Seq", "MC_Seq.cfg", seq_over(MaxSeals=3), {"DeadAfterLimit", "AdvanceByOne", "NoncesDistinct"}),
    ("key_schedule_context is an unhashed concatenation", "HpkeSchedule.tla",
     "ksc  == Cat(Cat(Lit(I2OSP1(mode)), pih), ih)",
     "ksc  == Cat(Cat(Lit(I2OSP1(mode)), EffPskId(mode, pskId)), info)",
     "MC_Setup", "MC_Setup.cfg", dict(SETUP_BASE), {"Binding"}),
    ("psk not mixed into secret", "HpkeSchedule.tla",
     "sec  == LabeledExtract(h, sid, ss, L_secret, EffPsk(mode, psk))",
     "sec  == LabeledExtract(h, sid, ss, L_secret, <<>>)",
     "MC_Setup", "MC_Setup.cfg", dict(SETUP_BASE), {"Binding", "PskSound"}),
    ("static-static DH dropped from AuthEncap/AuthDecap", "HpkeKem.tla",
     "ss |-> ExtractAndExpand(kem, Cat(dhE.v, dhS.v),", "ss |-> ExtractAndExpand(kem, dhE.v,",
     "MC_Setup", "MC_Setup.cfg", dict(SETUP_BASE, Impost="TRUE"), {"AuthSound", "Binding"}),
]


def main():
    bad = 0
    for name, fn, old, new, module, base, over, expect in MUTANTS:
        d = tempfile.mkdtemp(prefix="specmut-")
        try:
            for f in os.listdir(SPEC):
                if f.endswith((".tla", ".cfg")):
                    shutil.copy(os.path.join(SPEC, f), d)
            p = os.path.join(d, fn)
            s = open(p).read()
            if old not in s:
                print("MUTANT %-55s : pattern not found (stale mutant)" % name)
                bad += 1
                continue
            open(p, "w").write(s.replace(old, new))
            cfg = tlcrun.write_cfg(os.path.join(d, "mut.cfg"), base, over, spec_dir=d)
            try:
                r = tlcrun.run(module, cfg, workers=8, timeout=900, spec_dir=d)
                v = r.violated
            except Exception as e:
                v = "ERROR " + str(e)[:200]
            ok = v in expect
            print("MUTANT %-55s : %s (%s)" % (name, "rejected" if ok else "NOT REJECTED", v))
            bad += 0 if ok else 1
        finally:
            shutil.rmtree(d, ignore_errors=True)
    print("spec mutants: %d/%d rejected as expected" % (len(MUTANTS) - bad, len(MUTANTS)))
    return 1 if bad else 0


if __name__ == "__main__":
    sys.exit(main())
