#!/usr/bin/env python3
"""Binding self-test: the trace specifications really constrain the logs.  A recorded log of the real code is
accepted; the same log with ONE field corrupted (an error variant, a counter byte, the latch, a result kind, a
ledger delta, a memory-scan bit) must be rejected.  Run: python3 -m selftest.binding"""
import copy
import json
import os
import sys

sys.path.insert(0, os.path.dirname(os.path.dirname(os.path.abspath(__file__))))
from driver import randgen, tracecheck
from driver.common import Check


def first(lines, pred):
    for i, l in enumerate(lines):
        if pred(l):
            return i
    raise SystemExit("binding self-test: no suitable event in the recorded log")


CORRUPTIONS = [
    ("error variant of a refused open", lambda L: L[first(L, lambda l: l["op"] == "open" and l["err"] == "OpenError")].update(err="MessageLimitReached")),
    ("a counter byte after a seal", lambda L: L[first(L, lambda l: l["op"] == "seal" and l["kind"] == "ok")]["seq"].__setitem__(7, 99)),
    ("the overflow latch after an export", lambda L: L[first(L, lambda l: l["op"] == "export")].update(ovf=True)),
    ("result kind of an accepted open", lambda L: L[first(L, lambda l: l["op"] == "open" and l["kind"] == "ok")].update(kind="err", err="OpenError")),
    ("result kind of a refused open", lambda L: L[first(L, lambda l: l["op"] == "open" and l["kind"] == "err")].update(kind="ok", err="")),
    ("position after an accepted open (not advanced)", lambda L: (lambda i: L[i].update(seq=list(L[i - 1]["seq"]) if L[i - 1]["ctx"] == L[i]["ctx"] else [0] * 8))(first(L, lambda l: l["op"] == "open" and l["kind"] == "ok"))),
]


def main():
    chk = Check("SELFTEST", "quick")
    sc = randgen.gen_seq_profile(4242, 250)
    if tracecheck.run_trace(chk, sc, "binding_base") is not None:
        print("binding: the UNCORRUPTED log is rejected - broken machinery")
        return 1
    bad = 0
    for name, corrupt in CORRUPTIONS:
        def hook(lines, corrupt=corrupt):
            L = copy.deepcopy(lines)
            corrupt(L)
            return L
        sc = randgen.gen_seq_profile(4242, 250)
        r = tracecheck.run_trace(chk, sc, "binding_c", hook=hook)
        ok = r is not None
        print("CORRUPTION %-50s : %s" % (name, "rejected (%s)" % r["why"][:70] if ok else "ACCEPTED"))
        bad += 0 if ok else 1
    # the life-cycle trace specification
    from driver import props
    import driver.props as P
    orig = P.validate_trace
    seen = {}

    def tamper(kind):
        def v(chk2, module, cfg, env, events, name):
            ev = copy.deepcopy(events)
            if kind == "dirty":
                i = first(ev, lambda e: e["ev"] == "drop")
                ev[i]["delta"][2][1] = 1
            elif kind == "scan":
                i = first(ev, lambda e: e["ev"] == "drop" and e["scan"])
                ev[i]["scan"][0]["after"] = True
            elif kind == "nokeydrop":
                i = first(ev, lambda e: e["ev"] == "setup_s")
                ev[i]["delta"][1][0] = 0
            return orig(chk2, module, cfg, env, ev, name)
        return v
    for kind in ("dirty", "scan", "nokeydrop"):
        c2 = Check("SELFTEST", "quick")
        P.validate_trace = tamper(kind)
        try:
            P.c16(c2, "quick")
        except Exception:
            pass
        finally:
            P.validate_trace = orig
        ok = len(c2.violations) > 0
        print("CORRUPTION %-50s : %s" % ("life-cycle log: " + kind, "rejected" if ok else "ACCEPTED"))
        bad += 0 if ok else 1
    total = len(CORRUPTIONS) + 3
    print("binding: %d/%d corrupted logs rejected" % (total - bad, total))
    import shutil
    shutil.rmtree(os.path.join(os.path.dirname(os.path.dirname(os.path.abspath(__file__))), "out", "SELFTEST"), ignore_errors=True)
    try:
        os.remove(os.path.join(os.path.dirname(os.path.dirname(os.path.abspath(__file__))), "evidence", "SELFTEST.json"))
    except OSError:
        pass
    return 1 if bad else 0


if __name__ == "__main__":
    sys.exit(main())
