"""Running TLC on the specification and reading back what it printed."""
import json
import os
import re
import shutil
import subprocess
import tempfile
import time

from .common import SPEC, ToolError, log

JAVA_CP = "/opt/veriftools/tla/tla2tools.jar:/opt/veriftools/tla/CommunityModules-deps.jar"


def write_cfg(path, base, overrides=None, invariants=None, properties=None, extra=None, spec_dir=None):
    """Instantiate a .cfg: take spec/<base>, replace `NAME = value` / `NAME <- Op` constant lines named
    in `overrides`, optionally replace the INVARIANTS / PROPERTIES sections."""
    with open(os.path.join(spec_dir or SPEC, base)) as f:
        lines = f.read().split("\n")
    out = []
    overrides = dict(overrides or {})
    seen = set()
    section = None
    for ln in lines:
        s = ln.strip()
        word = s.split()[0] if s else ""
        if word in ("INVARIANTS", "INVARIANT", "PROPERTIES", "PROPERTY", "CONSTANTS", "CONSTANT", "INIT",
                    "NEXT", "CHECK_DEADLOCK", "ACTION_CONSTRAINT", "CONSTRAINT", "VIEW", "SPECIFICATION",
                    "POSTCONDITION", "ALIAS", "SYMMETRY"):
            section = word
        if section in ("INVARIANTS", "INVARIANT") and invariants is not None:
            continue
        if section in ("PROPERTIES", "PROPERTY") and properties is not None:
            continue
        m = re.match(r"\s*(\w+)\s*(=|<-)\s*(.*)$", ln)
        if m and section in ("CONSTANTS", "CONSTANT") and m.group(1) in overrides:
            v = overrides[m.group(1)]
            seen.add(m.group(1))
            out.append("  %s %s" % (m.group(1), v if v.startswith(("=", "<-")) else "= " + v))
            continue
        out.append(ln)
    missing = set(overrides) - seen
    if missing:
        raise ToolError("cfg %s has no constants %s" % (base, sorted(missing)))
    if invariants is not None and invariants:
        out.append("INVARIANTS " + " ".join(invariants))
    if properties is not None and properties:
        out.append("PROPERTIES " + " ".join(properties))
    if extra:
        out.extend(extra)
    with open(path, "w") as f:
        f.write("\n".join(out) + "\n")
    return path


class TlcResult:
    def __init__(self):
        self.printed = []       # decoded JSON values printed by the spec (PrintT(ToJson(..)))
        self.stats = {}
        self.violated = None    # name of a violated invariant / property, or an evaluation error
        self.error_text = ""
        self.coverage = {}
        self.raw_tail = ""


def run(module, cfg, workers=8, simulate=None, depth=None, timeout=1800, coverage=False, seed=None,
        on_value=None, env=None, java_opts=None, deadlock_ok=True, spec_dir=None):
    """Run TLC.  Values printed by the spec are JSON strings on lines of their own; they are decoded
    and either collected in result.printed or passed to on_value (streaming)."""
    meta = tempfile.mkdtemp(prefix="tlc-", dir=os.environ.get("VERIF_SCRATCH", tempfile.gettempdir()))
    cmd = ["java", "-XX:+UseParallelGC", "-Xss256m"] + (java_opts or []) + ["-cp", JAVA_CP, "tlc2.TLC",
           "-metadir", meta, "-cleanup", "-noGenerateSpecTE", "-config", cfg]
    if simulate:
        cmd += ["-simulate", "num=%d" % simulate]
        if depth:
            cmd += ["-depth", str(depth)]
        cmd += ["-workers", "1"]
    else:
        cmd += ["-workers", str(workers)]
    if seed is not None:
        cmd += ["-seed", str(seed)]
    if coverage:
        cmd += ["-coverage", "1"]
    cmd.append(os.path.join(spec_dir or SPEC, module + ".tla"))
    res = TlcResult()
    t0 = time.time()
    tail = []
    try:
        p = subprocess.Popen(cmd, stdout=subprocess.PIPE, stderr=subprocess.STDOUT, text=True, cwd=spec_dir or SPEC,
                             env=dict(os.environ, **(env or {})))
        try:
            for line in p.stdout:
                if time.time() - t0 > timeout:
                    p.kill()
                    raise ToolError("TLC timed out after %ds: %s" % (timeout, " ".join(cmd)))
                if getattr(res, "assert_pending", False) and line.strip():
                    res.assert_pending = False
                    m2 = re.match(r'\s*"(\w+)"', line)
                    if m2:
                        res.violated = m2.group(1)
                    continue
                if line.startswith('"'):
                    try:
                        v = json.loads(json.loads(line))
                    except ValueError:
                        tail.append(line[:300])
                        res.garbled = getattr(res, "garbled", 0) + 1
                        continue
                    if on_value:
                        on_value(v)
                    else:
                        res.printed.append(v)
                    continue
                tail.append(line.rstrip("\n")[:400])
                if len(tail) > 400:
                    del tail[:200]
                m = re.match(r"(\d+) states generated, (\d+) distinct states found, (\d+) states left", line)
                if m:
                    res.stats.update(generated=int(m.group(1)), distinct=int(m.group(2)), queue=int(m.group(3)))
                m = re.match(r"The depth of the complete state graph search is (\d+)", line)
                if m:
                    res.stats["depth"] = int(m.group(1))
                m = re.match(r"Error: Invariant (\w+) is violated", line)
                if m:
                    res.violated = m.group(1)
                m = re.match(r"Error: Postcondition (\w+)", line)
                if m:
                    res.violated = "Postcondition:" + m.group(1)
                m = re.match(r"Error: Action property (\w+) is violated", line)
                if m:
                    res.violated = m.group(1)
                m = re.search(r'The first argument of Assert evaluated to FALSE; the second argument was:\s*"?(\w*)', line)
                if m:
                    res.violated = m.group(1) or "Assert"
                    res.assert_pending = not m.group(1)
                    continue
                if getattr(res, "assert_pending", False) and line.strip():
                    res.assert_pending = False
                    m2 = re.match(r'\s*"(\w+)"', line)
                    if m2:
                        res.violated = m2.group(1)
                if line.startswith("Error:") and res.violated is None and "Deadlock" not in line:
                    res.violated = "ERROR"
                    res.error_text = line.strip()
                if line.startswith("Error: Deadlock") and not deadlock_ok:
                    res.violated = "Deadlock"
                m = re.match(r"The number of states generated: (\d+)", line)
                if m:
                    res.stats["generated"] = int(m.group(1))
            p.wait()
        finally:
            if p.poll() is None:
                p.kill()
    finally:
        shutil.rmtree(meta, ignore_errors=True)
    res.stats["wall_s"] = round(time.time() - t0, 1)
    res.raw_tail = "\n".join(tail[-60:])
    if getattr(res, "garbled", 0):
        raise ToolError("%d printed values of %s could not be decoded:\n%s" % (res.garbled, module, res.raw_tail))
    if res.violated == "ERROR":
        # an evaluation error inside the spec is a tool error, not a verdict
        raise ToolError("TLC error in %s: %s\n%s" % (module, res.error_text, res.raw_tail))
    if not simulate and "distinct" not in res.stats and res.violated is None:
        raise ToolError("TLC produced no statistics for %s:\n%s" % (module, res.raw_tail))
    return res
