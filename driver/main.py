"""CLI of the checks: ./check <ID> quick|thorough | --replay FILE"""
import json
import os
import sys
import traceback

from .common import Check, ToolError, EnoughViolations, log


def main(argv):
    if len(argv) < 2:
        print("usage: check <ID> quick|thorough|--replay FILE", file=sys.stderr)
        return 2
    prop = argv[0]
    from . import props
    fn = props.REGISTRY.get(prop)
    if fn is None:
        print("no check for " + prop, file=sys.stderr)
        return 2
    if argv[1] == "--replay":
        from . import replaycmd
        return replaycmd.run(prop, argv[2])
    tier = argv[1]
    if tier not in ("quick", "thorough"):
        return 2
    os.environ.setdefault("VERIF_TIER", tier)
    level = props.LEVEL.get(prop, "model_checking")
    chk = Check(prop, tier, level)
    try:
        from . import selfcheck
        selfcheck.preflight()
        try:
            fn(chk, tier)
        except EnoughViolations:
            pass
        except ToolError as e:
            # a coverage / vacuity guard tripping AFTER confirmed violations is a consequence of them (calls that
            # deviate early are never explored further): the violations are the verdict
            if not chk.violations:
                raise
            chk.notes["tool_error_after_violations"] = str(e)[:500]
        return chk.finish()
    except ToolError as e:
        print("TOOL-ERROR property=%s: %s" % (prop, e), file=sys.stderr)
        return 2
    except Exception:
        traceback.print_exc()
        print("TOOL-ERROR property=%s: internal error" % prop, file=sys.stderr)
        return 2


if __name__ == "__main__":
    sys.exit(main(sys.argv[1:]))
