"""The per-property checks (DESIGN section 5)."""
import json
import os
import random

from . import engine
from .common import ToolError, EnoughViolations, seed, log, NCPU
from .engine import Session, model_check, generate, steps_of, transition_steps, TransitionBatch, require_outcomes
from .replay import ALL

REGISTRY = {}
LEVEL = {}


def traces(chk, profile, count, label, exact_tags=frozenset(), **kw):
    """impl -> spec: `count` random scripts of the given profile, each run on the real code and validated by TLC
    against spec/HpkeTrace.tla (every invariant at every step) with the byte obligations discharged"""
    from . import randgen, tracecheck
    gen = getattr(randgen, "gen_%s_profile" % profile)
    for k in range(count):
        sc = gen(seed() * 1000 + k, **kw)
        bad = tracecheck.run_trace(chk, sc, "trace_%s_%d" % (profile, k), exact_tags=exact_tags)
        chk.case(("trace", profile, seed() * 1000 + k, len(sc.cmds)))
        if bad is not None:
            tracecheck.report(chk, bad, label)
            return False
    if count:
        chk.sample({"trace": label, "last_script_calls": len(sc.cmds),
                    "excerpt": [{k2: (v if k2 != "args" else {a: e.trace() for a, e in v.items()}) for k2, v in c.items()}
                                for c in sc.cmds[:3]]})
    return True


def prop(pid, level="model_checking"):
    def deco(fn):
        REGISTRY[pid] = fn
        LEVEL[pid] = level
        return fn
    return deco


SEQ_BASE = dict(AeadC="1", KdfC="1", ExpMenu='"few"', SweepFrom="0", SweepTo="0", Starts='"boundary"', Menu='"none"', BnKind='"leaf"', Emit="FALSE", LenVar="0",
                MaxSeals="3", MaxOpens="0", MaxExports="0", RecordHist="FALSE", OvfFirstInOpen="TRUE", HistLen="0",
                HugeSeals="FALSE",
                FormMenu='{"alloc", "detached"}')


SETUP_BASE = dict(KemSet="{32}", KdfSet="{1}", AeadSet="{1, 65535}", ModeSet="{0, 1, 2, 3}", Vals='"small"',
                  Perturb='{"none", "info", "psk", "pskid", "mode", "kdf", "aead", "skr", "enc", "pks", "shift"}',
                  MaxSetSeq="0", Impost="FALSE", ShotsOnly="FALSE", ShotDl='"tamper"', Twin="FALSE", BadPkR='"none"', Shape='"all"', SweepMax="0", SweepExtra="{}", Emit="FALSE", EmitWiring="FALSE", Ordered="TRUE", MaxSeals="0", MaxOpens="0", MaxExports="0", MaxShots="0",
                  RecordHist="FALSE", HistLen="0", FormMenu='{"alloc"}', OvfFirstInOpen="TRUE", HugeSeals="FALSE")


def tla(v):
    return v if isinstance(v, str) else ("TRUE" if v is True else "FALSE" if v is False else str(v))


def setup_over(**kw):
    d = dict(SETUP_BASE)
    for k, v in kw.items():
        d[k] = tla(v)
    return d


def seq_over(**kw):
    d = dict(SEQ_BASE)
    for k, v in kw.items():
        d[k] = v if isinstance(v, str) else ("TRUE" if v is True else "FALSE" if v is False else str(v))
    return d


def apalache_counter(chk):
    """unbounded, spec level: the 64-bit counter never reuses a number (inductive invariant, Apalache).  Kept out of
    the verdict path's critical assumptions: a failure here is a broken specification (exit 2)."""
    import subprocess
    from .common import SPEC
    for args, what in ((["--init=Init", "--inv=IndInv", "--length=0"], "Init => IndInv"),
                       (["--init=IndInit", "--inv=IndInv", "--length=1"], "IndInv /\\ Next => IndInv'")):
        try:
            p = subprocess.run(["apalache-mc", "check"] + args + ["--out-dir=" + os.path.join(engine.outdir(chk.prop), "apalache"),
                                "Counter.tla"], cwd=SPEC, stdout=subprocess.PIPE, stderr=subprocess.STDOUT, text=True, timeout=600)
        except (OSError, subprocess.TimeoutExpired) as e:
            chk.notes.setdefault("apalache", []).append({"obligation": what, "result": "not run: %s" % e})
            continue
        ok = "EXITCODE: OK" in p.stdout
        refuted = "Checker has found an error" in p.stdout or "EXITCODE: ERROR (12)" in p.stdout
        chk.notes.setdefault("apalache", []).append(
            {"obligation": what, "result": "proved" if ok else "REFUTED" if refuted else "not run: " + p.stdout.strip().split("\n")[-1][:120]})
        if refuted:
            raise ToolError("Apalache: %s fails on Counter.tla\n%s" % (what, p.stdout[-1500:]))
    import shutil
    shutil.rmtree(os.path.join(engine.outdir(chk.prop), "apalache"), ignore_errors=True)


# ------------------------------------------------------------------------------------------- C04
@prop("C04")
def c04(chk, tier):
    thorough = tier == "thorough"
    chk.assumptions += [
        "TLC explores the specification exhaustively only within the stated bounds (start counters from the "
        "carry-boundary set, <= 4 seals); the code is known to follow it on the replayed transitions/behaviours",
        "ciphertext bodies are compared with the oracle's pure-Python AES-GCM / ChaCha20 keystream (pinned by "
        "published vectors); contexts come from the raw-context hook so KEM and key schedule are not involved",
        "counter values >= 2^24 are installed through the verif_set_seq_state hook",
        "the failing-seal path (SealError) is reached with a plaintext of 2^36+1 (AES-GCM) / 2^38 (ChaCha20Poly1305) bytes "
        "handed over as a lazily mapped zero region that the AEAD refuses by length before touching it"]
    # 1. the specification has the property (bounded, exhaustive)
    model_check(chk, "MC_Seq", "MC_Seq.cfg", "mc_counter",
                seq_over(MaxSeals=4 if thorough else 3, AeadC=1, HugeSeals=True),
                invariants=["NonceIsXor", "NoncesDistinct", "ConsecutiveSeqs", "CtLen"],
                properties=["Latch", "Monotone"])
    apalache_counter(chk)
    ses = Session(chk)
    try:
        # 2. every transition of the bounded model, one implementation test each (teleport by hook)
        kinds = ["zeros", "ones", "alt", "leaf"]
        for aead in (1, 2, 3):
            for bn in kinds:
                batch = TransitionBatch(ses, exact_tags={"aeadct"}, label="seal-transition aead=%d bn=%s" % (aead, bn))

                def on(tr, aead=aead, bn=bn, batch=batch):
                    if tr["last"]["op"] not in ("seal", "seal_huge"):
                        return
                    batch.add(tr)
                    l = tr["last"]
                    chk.case(("t", aead, bn, tuple(l["pre"]["seq"]), l["pre"]["ovf"], l["form"], l["kind"]))
                generate(chk, "MC_Seq", "MC_Seq.cfg", "gen_tr_%d_%s" % (aead, bn),
                         seq_over(AeadC=aead, BnKind='"%s"' % bn, Emit=True, MaxSeals=3, HugeSeals=(bn == "leaf")),
                         invariants=[], on_value=on, workers=4)
                if batch.n == 0:
                    raise ToolError("no seal transition generated for aead %d" % aead)
                batch.run()
        # 3. whole behaviours from sequence number 0 through the public API only
        for aead in (1, 2, 3):
            def onb(beh, aead=aead):
                st = steps_of(beh)
                ses.replay(st, exact_tags={"aeadct"}, label="from-zero aead=%d" % aead, sample=False)
                chk.case(("b", aead, tuple(s["form"] for s in st if s["op"] == "seal")))
            generate(chk, "MC_Seq", "MC_Seq.cfg", "gen_beh_%d" % aead,
                     seq_over(AeadC=aead, Starts='"zero"', RecordHist=True, MaxSeals=6 if thorough else 4,
                              HistLen=5 + (6 if thorough else 4)),
                     invariants=["PrintHist"], on_value=onb, workers=1)
        # 3b. the boundary transitions again on a build WITHOUT debug assertions and overflow checks (an application's
        # release build): the latch and the carry must not live inside a debug_assert!
        plain = Session(chk, profile="plain")
        try:
            aead = rot([1, 2, 3], 2)
            batch = TransitionBatch(plain, exact_tags={"aeadct"}, label="seal transition, no debug assertions, aead=%d" % aead)

            def onp(tr, batch=batch, aead=aead):
                l = tr["last"]
                if l["op"] == "seal":
                    batch.add(tr)
                    chk.case(("plain", aead, tuple(l["pre"]["seq"]), l["pre"]["ovf"], l["form"], l["kind"], l["err"]))
            generate(chk, "MC_Seq", "MC_Seq.cfg", "gen_plain_%d" % aead,
                     seq_over(AeadC=aead, Starts='"edge"', Emit=True, MaxSeals=2), invariants=[], on_value=onp, workers=4)
            batch.run()
        finally:
            plain.close()
        # 4. long runs: an exhausted sender refuses 2^20+ times in a row, exports stay put (see also C05's long runs)
        sender_soak(chk, ses, (1 << 24) + 5 if thorough else (1 << 20) + (1 << 16) + 3)
        # ... and keeps sealing whatever the TOTAL number of bytes: 64 MiB in quick, past 2^32 bytes in thorough
        bulk_soak(chk, ses, 270 if thorough else 4)
    finally:
        ses.close()
    require_outcomes(chk, ['seal/ok', 'seal/err/MessageLimitReached', 'seal_huge/err/SealError'])
    chk.cov["exhaustive"] = True
    chk.cov["rule"] = ("every (start counter in the carry-boundary set x latch x form x AEAD x base-nonce pattern) seal "
                       "transition of the bounded model, replayed on hook-built contexts; distinct = distinct "
                       "(aead, base nonce kind, pre-counter, latch, form, outcome)")


# ------------------------------------------------------------------------------------------- C05
C05_INV = ["AcceptsOnlySealed", "RcvdInOrder", "NoncesDistinct", "CtLen"]


@prop("C05")
def c05(chk, tier):
    thorough = tier == "thorough"
    chk.assumptions += [
        "ideal AEAD in the specification: a delivery verifies iff it is byte-identical to a message sealed under "
        "the same key, nonce and aad (failure probability of the real AEADs <= 2^-96 per case)",
        "pattern mode: deliveries are built from the implementation's own ciphertexts by byte surgery; no absolute "
        "ciphertext byte is predicted, so the check is indifferent to how nonces are laid out (that is C04)",
        "receiver positions >= 2^24 are installed through the verif_set_seq_state hook"]
    model_check(chk, "MC_Seq", "MC_Seq.cfg", "mc_recv",
                seq_over(AeadC=1, Menu='"full"' if thorough else '"small"', MaxSeals=3, MaxOpens=3 if thorough else 2,
                         OvfFirstInOpen=True),
                invariants=C05_INV, properties=["Latch", "Monotone"], workers=NCPU if thorough else 8,
                timeout=3600)
    ses = Session(chk)
    try:
        for aead in (1, 2, 3):
            batch = TransitionBatch(ses, label="open-transition aead=%d" % aead)

            def on(tr, aead=aead, batch=batch):
                l = tr["last"]
                if l["op"] != "open":
                    return
                batch.add(tr)
                d = l["plain"]["d"]
                chk.case(("t", aead, d["k"], d["s"], tuple(l["pre"]["seq"]), l["pre"]["ovf"], l["form"], l["kind"], l["err"]))
            generate(chk, "MC_Seq", "MC_Seq.cfg", "gen_tr_%d" % aead,
                     seq_over(AeadC=aead, Menu='"full"' if thorough and aead == 1 else '"small"', Emit=True,
                              Starts='"boundary"' if thorough or aead == 1 else '"edge"',
                              MaxSeals=2, MaxOpens=2 if thorough else 1),
                     invariants=[], on_value=on, workers=4, timeout=3600)
            if batch.n == 0:
                raise ToolError("no open transition generated")
            batch.run()
        # the same with messages of several KiB (anything the receiver might keep per message - a size-gated fast path)
        for aead in ((1, 2, 3) if thorough else (rot([1, 2, 3], 1),)):
            batch = TransitionBatch(ses, label="open-transition, large messages, aead=%d" % aead)

            def onl(tr, aead=aead, batch=batch):
                l = tr["last"]
                if l["op"] == "open":
                    batch.add(tr)
                    d = l["plain"]["d"]
                    chk.case(("tl", aead, d["k"], d["s"], tuple(l["pre"]["seq"]), l["pre"]["ovf"], l["form"], l["kind"], l["err"]))
            generate(chk, "MC_Seq", "MC_Seq.cfg", "gen_trl_%d" % aead,
                     seq_over(AeadC=aead, Menu='"small"', Emit=True, Starts='"zero"', LenVar=11, MaxSeals=2, MaxOpens=1),
                     invariants=[], on_value=onl, workers=4, timeout=3600)
            batch.run()
        # the boundary transitions again on a build without debug assertions and overflow checks
        plain = Session(chk, profile="plain")
        try:
            aead = rot([1, 2, 3], 2)
            batch = TransitionBatch(plain, label="open-transition, no debug assertions, aead=%d" % aead)

            def onp(tr, aead=aead, batch=batch):
                l = tr["last"]
                if l["op"] == "open":
                    batch.add(tr)
                    d = l["plain"]["d"]
                    chk.case(("tp", aead, d["k"], d["s"], tuple(l["pre"]["seq"]), l["pre"]["ovf"], l["form"], l["kind"], l["err"]))
            generate(chk, "MC_Seq", "MC_Seq.cfg", "gen_trp_%d" % aead,
                     seq_over(AeadC=aead, Menu='"small"', Emit=True, Starts='"edge"', MaxSeals=2, MaxOpens=1),
                     invariants=[], on_value=onp, workers=4, timeout=3600)
            batch.run()
        finally:
            plain.close()
        # a message sealed at position 0 must not open at any position 2^j (every single bit of the counter matters)
        for aead in (1, 2, 3):
            batch = TransitionBatch(ses, label="cross-position aead=%d" % aead)

            def onc(tr, aead=aead, batch=batch):
                l = tr["last"]
                if l["op"] == "open":
                    batch.add(tr)
                    chk.case(("x", aead, l["plain"]["d"]["k"], tuple(l["pre"]["seq"]), l["form"], l["kind"], l["err"]))
            generate(chk, "MC_Seq", "MC_Seq.cfg", "gen_cross_%d" % aead,
                     seq_over(AeadC=aead, Starts='"cross"', Menu='"inorder"', Emit=True, MaxSeals=1, MaxOpens=1),
                     invariants=[], on_value=onc, workers=4)
            batch.run()
        # whole behaviours from position 0 through the public API only (random walks of the model)
        rnd = random.Random(seed())
        for aead in (1, 2, 3):
            def onb(beh, aead=aead):
                # TLC's simulator evaluates the printing invariant on every candidate successor of the last
                # step, so each walk arrives ~100 times with different last steps: keep a seeded 1/20 of them
                if rnd.random() > 0.05:
                    return
                ses.replay(steps_of(beh), label="walk aead=%d" % aead, sample=False)
                chk.case(("b", aead, json.dumps([(s["op"], s.get("form"), s["kind"], s["err"]) for s in steps_of(beh)])))
            generate(chk, "MC_Seq", "MC_Seq.cfg", "gen_walk_%d" % aead,
                     seq_over(AeadC=aead, Starts='"zero"', Menu='"full"', RecordHist=True, MaxSeals=4, MaxOpens=6,
                              MaxExports=1, HistLen=16),
                     invariants=["PrintHist"], on_value=onb, simulate=400 if thorough else 60, depth=18,
                     tlc_seed=seed())
        # impl -> spec: random adversarial schedules with counter jumps anywhere in 0..2^64-1, validated by TLC
        traces(chk, "seq", 20 if thorough else 2, "random adversarial schedule", nsteps=2000 if thorough else 400)
        # long runs: more than 2^20 (thorough: 2^24) consecutive rejections, more than 2^16 (2^20) messages in a row
        c05_soak(chk, ses, (1 << 24) + 77 if thorough else (1 << 20) + (1 << 16) + 7, (1 << 20) + 5 if thorough else 70000)
    finally:
        ses.close()
    require_outcomes(chk, ['open/ok', 'open/err/OpenError', 'open/err/MessageLimitReached'])
    chk.cov["rule"] = ("every open transition of the bounded model (delivery kind x source x receiver position in the "
                       "carry-boundary set x latch x form x AEAD) as one implementation test, plus random walks from "
                       "position 0; distinct = distinct (aead, delivery kind, source, pre-counter, latch, form, outcome)")


def soak_steps(chk, ex, script, steps, plain_ok, tag):
    """steps: (command, expected number of conforming iterations | None for an ordinary call judged by plain_ok)"""
    for cmd, want in steps:
        ev = ex.call(cmd)
        script.append(cmd)
        good = "ok" in ev and (want is None or ev["ok"].get("done") == want)
        if want is None and good:
            good = plain_ok(ev)
        if not good:
            what = ("after %s conforming iterations: %s" % (ev["ok"].get("done"), ev["ok"].get("bad"))) if "ok" in ev and want is not None \
                else json.dumps({k: ev.get(k) for k in ("ok", "err", "panic")})[:200]
            chk.violation("long run on one session (%s %s, n=%s): %s" % (cmd["op"], cmd.get("mode", ""), cmd.get("n", 1), what),
                          {"kind": "trace", "script": script, "why": what, "event": ev, "fingerprint": tag + "-soak-" + cmd.get("mode", cmd["op"])})
            return False
    return True


def sender_soak(chk, ses, n):
    """the sender's side of the long runs: n exports with the same arguments are all equal (also on the peer), n seals on
    an exhausted context are all refused with MessageLimitReached and an untouched buffer, and the export after all that
    is still the same value"""
    import hashlib
    ex = ses.ex
    hx = lambda tag, k: hashlib.shake_128(("sendersoak-%d-%s" % (seed(), tag)).encode()).hexdigest(k)
    aead, kdf = rot([1, 2, 3], 1), rot([1, 2, 3], 2)
    nk, nh = {1: 16, 2: 32, 3: 32}[aead], {1: 32, 2: 48, 3: 64}[kdf]
    raw = {"op": "raw_ctx", "suite": [16, kdf, aead], "key": hx("key", nk), "base_nonce": hx("bn", 12), "exporter_secret": hx("exp", nh)}
    script = [dict(raw, ctx="ss_s", role="S"), dict(raw, ctx="ss_r", role="R")]
    for c in script:
        if "ok" not in ex.call(c):
            raise ToolError("soak: cannot build the session")
    first = {}

    def same(ev):
        first.setdefault("out", ev["ok"].get("out"))
        return ev["ok"].get("out") == first["out"]
    exp = lambda c: {"op": "export", "ctx": c, "exporter_ctx": "e0e1", "len": 40}
    steps = [(exp("ss_s"), None),
             ({"op": "soak", "mode": "export", "ctx": "ss_s", "n": n, "aad": "e0e1", "len": 40}, n),
             ({"op": "soak", "mode": "export", "ctx": "ss_r", "n": 70000, "aad": "e0e1", "len": 40}, 70000),
             (exp("ss_r"), None),
             ({"op": "set_seq", "ctx": "ss_s", "seq": "ff" * 8, "ovf": True}, None),
             ({"op": "soak", "mode": "refuse", "ctx": "ss_s", "n": n, "aad": "", "pt": hx("pt", 33)}, n),
             (exp("ss_s"), None)]
    ok = soak_steps(chk, ex, script, steps, lambda ev: ("out" not in ev["ok"]) or same(ev), "sender")
    for c in ("ss_s", "ss_r"):
        ex.call({"op": "drop", "ctx": c})
    if ok:
        chk.case(("sender-soak", aead, kdf, n))
        chk.trace_ok()
    return ok


def bulk_soak(chk, ses, n, size=16 << 20):
    import hashlib
    ex = ses.ex
    hx = lambda tag, k: hashlib.shake_128(("bulksoak-%d-%s" % (seed(), tag)).encode()).hexdigest(k)
    for aead in ((1, 2, 3) if n > 50 else (rot([1, 2], 0),)):
        nk = {1: 16, 2: 32, 3: 32}[aead]
        n = n if aead == 1 or n <= 50 else 70          # (the full 4 GiB+ on one AEAD, 1 GiB+ on the others)
        script = [{"op": "raw_ctx", "ctx": "bulk_s", "role": "S", "suite": [32, 1, aead], "key": hx("key", nk),
                   "base_nonce": hx("bn", 12), "exporter_secret": hx("exp", 32)}]
        if "ok" not in ex.call(script[0]):
            raise ToolError("soak: cannot build the sender")
        ok = soak_steps(chk, ex, script, [({"op": "soak", "mode": "bulk", "ctx": "bulk_s", "n": n, "size": size, "aad": "00"}, n)],
                        lambda ev: True, "bulk")
        ex.call({"op": "drop", "ctx": "bulk_s"})
        if not ok:
            return False
        chk.case(("bulk", aead, n, size))
        chk.trace_ok()
    return True


def c05_soak(chk, ses, n_reject, n_round):
    """Long runs the bounded model cannot enumerate but whose prediction follows by induction from the per-step
    properties (a rejected open is a stutter step; an accepted one advances by one): n_reject consecutive rejected
    deliveries (bogus bytes, then a damaged copy of the genuine next message) must all be OpenError with the counter
    unmoved, after which the genuine message still opens; then n_round messages in a row round-trip.  Anything a
    receiver counts besides the sequence number (consecutive failures, messages since ...) is driven past 2^16 / 2^20."""
    import hashlib
    ex = ses.ex
    hx = lambda tag, n: hashlib.shake_128(("c05soak-%d-%s" % (seed(), tag)).encode()).hexdigest(n)
    for aead in (rot([1, 2, 3], 0),):
        nk = {1: 16, 2: 32, 3: 32}[aead]
        raw = {"op": "raw_ctx", "suite": [32, 1, aead], "key": hx("key", nk), "base_nonce": hx("bn", 12), "exporter_secret": hx("exp", 32)}
        script = [dict(raw, ctx="soak_s", role="S"), dict(raw, ctx="soak_r", role="R"),
                  {"op": "seal", "ctx": "soak_s", "form": "alloc", "pt": hx("pt", 40), "aad": "aa"}]
        evs = [ex.call(c) for c in script]
        if not all("ok" in e for e in evs):
            raise ToolError("soak: cannot build the session: %s" % json.dumps(evs)[:300])
        ct0 = evs[2]["ok"]["ct"]
        damaged = ("%02x" % (int(ct0[:2], 16) ^ 1)) + ct0[2:]
        steps = [({"op": "soak", "mode": "reject", "ctx": "soak_r", "n": n_reject, "ct": hx("garbage", 48), "aad": "aa"}, n_reject),
                 ({"op": "soak", "mode": "reject", "ctx": "soak_r", "n": 70000, "ct": damaged, "aad": "aa"}, 70000),
                 ({"op": "soak", "mode": "reject", "ctx": "soak_r", "n": 70000, "ct": ct0, "aad": "ab"}, 70000),
                 ({"op": "open", "ctx": "soak_r", "form": "alloc", "ct": ct0, "aad": "aa"}, None),
                 ({"op": "soak", "mode": "roundtrip", "ctx": "soak_r", "ctx_s": "soak_s", "n": n_round, "pt": hx("pt2", 24), "aad": ""}, n_round)]
        if not soak_steps(chk, ex, script, steps, lambda ev: ev["ok"].get("pt") == script[2]["pt"], "c05"):
            return False
        for c in ("soak_s", "soak_r"):
            ex.call({"op": "drop", "ctx": c})
        chk.case(("soak", aead, n_reject, n_round))
        chk.trace_ok()
    return True


# ------------------------------------------------------------------------------------------- C06
@prop("C06")
def c06(chk, tier):
    thorough = tier == "thorough"
    chk.assumptions += [
        "ideal AEAD in the specification (forgery probability of the real AEADs <= 2^-96 per case)",
        "pattern mode: each delivery is the implementation's own ciphertext / tag / aad modified exactly as the "
        "TLC-enumerated case says; the unmodified in-sequence message is accepted in the same run (positive control)"]
    inv = ["AcceptsOnlySealed", "RcvdInOrder", "CtLen"]
    model_check(chk, "MC_Seq", "MC_Seq.cfg", "mc_integrity",
                seq_over(AeadC=1, Starts='"zero"', Menu='"integrity"', MaxSeals=2, MaxOpens=2, LenVar=2),
                invariants=inv, properties=[])
    ses = Session(chk)
    accepted_controls = [0]
    try:
        variants = [0, 2, 5, 6, 12] if thorough else [2, 6]   # (pt, aad) lengths (17,0),(32,16) / (16,17),(33,1) / (5,70000),(300,65537)
        for aead in (1, 2, 3):
            for lv in (variants if thorough else (variants[:2] if aead == 1 else [variants[0]]) + ([12] if aead == rot([1, 2, 3], 0) else [])):
                batch = TransitionBatch(ses, label="tamper aead=%d lenvar=%d" % (aead, lv))

                def on(tr, aead=aead, lv=lv, batch=batch):
                    l = tr["last"]
                    if l["op"] != "open":
                        return
                    batch.add(tr)
                    d = l["plain"]["d"]
                    if d["k"] == "msg" and l["kind"] == "ok":
                        accepted_controls[0] += 1
                    chk.case(("t", aead, lv, d["k"], d["i"], d["j"], d["n"], l["form"], tuple(l["pre"]["seq"]), l["kind"]))
                generate(chk, "MC_Seq", "MC_Seq.cfg", "gen_tr_%d_%d" % (aead, lv),
                         seq_over(AeadC=aead, Starts='"zero"', Menu='"integrity"', Emit=True, MaxSeals=2, MaxOpens=2,
                                  LenVar=lv),
                         invariants=[], on_value=on, workers=4, timeout=3600)
                batch.run()
        # the same modifications at the far end of the counter range (receiver at 2^32-1, 2^64-2, 2^64-1, latched)
        for aead in (1, 2, 3):
            batch = TransitionBatch(ses, label="tamper at boundary aead=%d" % aead)

            def onb(tr, aead=aead, batch=batch):
                l = tr["last"]
                if l["op"] != "open":
                    return
                batch.add(tr)
                d = l["plain"]["d"]
                if d["k"] == "msg" and l["kind"] == "ok":
                    accepted_controls[0] += 1
                chk.case(("tb", aead, d["k"], d["i"], d["j"], d["n"], l["form"], tuple(l["pre"]["seq"]), l["pre"]["ovf"], l["kind"]))
            generate(chk, "MC_Seq", "MC_Seq.cfg", "gen_tr_edge_%d" % aead,
                     seq_over(AeadC=aead, Starts='"edge"', Menu='"full"' if thorough else '"small"', Emit=True, MaxSeals=2,
                              MaxOpens=1, LenVar=aead),
                     invariants=[], on_value=onb, workers=4, timeout=3600)
            batch.run()
        if accepted_controls[0] == 0:
            raise ToolError("no positive control (accepted verbatim message) in the run")
        c06_short_sweep(chk, ses, thorough)
        c06_single_shot(chk, ses, thorough)
        traces(chk, "seq", 10 if thorough else 1, "random tampering", nsteps=1500 if thorough else 300)
    finally:
        ses.close()
    require_outcomes(chk, ['open/ok', 'open/err/OpenError'])
    chk.notes["positive_controls_accepted"] = accepted_controls[0]
    chk.cov["exhaustive"] = True
    chk.cov["rule"] = ("every single-bit flip of ciphertext, tag and aad, every truncation length, extensions by 1 and 16 at "
                       "either end, every substitution between two messages, for the allocating / detached / single-shot "
                       "opening interfaces; distinct = distinct (aead, length variant, delivery, form, receiver position)")


def c06_single_shot(chk, ses, thorough):
    pass


def c06_short_sweep(chk, ses, thorough):
    """Truncation below the tag length, many instances: a sealed EMPTY plaintext is just a tag; the model's transition
    'deliver it with its last 1..3 bytes removed' is replayed with many different seeded keys / nonces / aads, i.e. many
    different tags.  (A receiver that pads a short input instead of refusing it accepts about 1 in 256 of these.)"""
    reps = 2000 if thorough else 500
    for aead in (1, 2, 3):
        picked = []

        def on(tr):
            l = tr["last"]
            if l["op"] != "open" or l["form"] != "alloc":
                return
            d = l["plain"]["d"]
            if d["k"] == "trunc" and d["n"] in (1, 2, 3) and d["i"] == 1 and tuple(l["pre"]["seq"]) == (0,) * 8:
                picked.append(transition_steps(tr))
        generate(chk, "MC_Seq", "MC_Seq.cfg", "gen_short_%d" % aead,
                 seq_over(AeadC=aead, Starts='"zero"', Menu='"integrity"', Emit=True, MaxSeals=1, MaxOpens=1, LenVar=0),
                 invariants=[], on_value=on, workers=2)
        if len(picked) < 3:
            raise ToolError("short-sweep transitions not generated")
        for st in picked:
            for j in range(reps):
                if not ses.replay(st, label="truncated tag-only message aead=%d" % aead, sample=False,
                                  leaf_seed=seed() * 100003 + j):
                    return
            chk.case(("short-sweep", aead, json.dumps(st[-1]["plain"]), reps))


# ----------------------------------------------------------------------- MC_Setup based checks
KEMS = (32, 16, 17, 18)


def setup_transitions(chk, ses, name, over, exact_tags=frozenset(), want=None, casekey=None, workers=4, **kw):
    """Generate the transitions of an MC_Setup instance and run each as an implementation test.
    `want(last, tr)` selects the transitions to test; `casekey(last, tr)` gives the distinct-case key."""
    prologues = {}
    batch = TransitionBatch(ses, exact_tags=exact_tags, label=name, **kw)
    counts = {}

    def on(v):
        if "prologue" in v:
            for e in v["prologue"]:
                pro = e["pro"]
                prologues[e["kem"]] = [pro[k] for k in sorted(pro)]
            return
        last = v["last"]
        if want and not want(last, v):
            return
        suite = None
        for c in ("s", "r", "i"):
            m = v["made"].get(c) if isinstance(v.get("made"), dict) else None
            if m:
                suite = m[0]["plain"]["suite"]
                break
        if suite is None:
            suite = last["plain"]["suite"]
        batch.prologue = prologues[suite[0]]
        batch.add(v)
        counts[last["op"]] = counts.get(last["op"], 0) + 1
        chk.case(casekey(last, v) if casekey else (name, json.dumps(last, sort_keys=True)[:0], batch.n))
    generate(chk, "MC_Setup", "MC_Setup.cfg", name, over, invariants=[], on_value=on, workers=workers, timeout=7200)
    if batch.n == 0:
        raise ToolError("no transition generated by %s" % name)
    batch.run()
    return counts


def suite_of(tr):
    made = tr.get("made")
    if isinstance(made, dict):
        for c in ("s", "r", "i"):
            if made.get(c):
                return tuple(made[c][0]["plain"]["suite"]), made[c][0]["plain"]["mode"]
    return tuple(tr["last"]["plain"]["suite"]), tr["last"]["plain"]["mode"]


@prop("C02")
def c02(chk, tier):
    thorough = tier == "thorough"
    chk.assumptions += [
        "RFC-exactness is relative to the primitive oracle (pure-Python HKDF, X25519, P-256/384/521, AES-GCM, "
        "ChaCha20-Poly1305 pinned by published vectors) and to the specification's transcription of RFC 9180, "
        "itself anchored to Appendix A.1.1, A.1.2, A.1.3, A.2.1, A.3.1 (driver/anchor.py)",
        "receiver direction: encapsulated keys and ciphertexts handed to the real receiver are computed by the "
        "oracle from the specification's terms, never copied from the implementation's sender"]
    ses = Session(chk)
    try:
        for kem in KEMS:
            def key(last, tr):
                su, mo = suite_of(tr)
                return ("c02", su, mo, last["op"], last.get("form"), last.get("c"), last["kind"],
                        json.dumps(last.get("plain"), sort_keys=True))
            setup_transitions(chk, ses, "gen_exact_%d" % kem,
                              setup_over(KemSet="{%d}" % kem, KdfSet="{1, 2, 3}", AeadSet="{1, 2, 3, 65535}",
                                         Vals='"leaf"', Shape='"one"', Perturb='{"none"}',
                                         Emit=True, MaxSeals=2, MaxOpens=2, MaxExports=1,
                                         FormMenu='{"alloc", "detached"}'),
                              exact_tags=ALL, casekey=key)
            if thorough:
                # every combination of info / psk / psk_id values (lengths 0, 1, 32, 65, 160), one KDF and AEAD per KEM
                setup_transitions(chk, ses, "gen_exact_all_%d" % kem,
                                  setup_over(KemSet="{%d}" % kem, KdfSet=kset([rot([1, 2, 3], kem)]),
                                             AeadSet=kset([rot([1, 2, 3, 65535], kem)]), Vals='"leaf"', Shape='"all"',
                                             Perturb='{"none"}', Emit=True, MaxSeals=1, MaxOpens=1, MaxExports=1),
                                  exact_tags=ALL, casekey=key)
            setup_transitions(chk, ses, "gen_exact_shot_%d" % kem,
                              setup_over(KemSet="{%d}" % kem, KdfSet="{1, 2, 3}" if thorough else "{%d}" % (1 + kem % 3),
                                         AeadSet="{1, 2, 3, 65535}", Vals='"leaf"', Shape='"one"', Perturb='{"none"}',
                                         Emit=True, MaxShots=2, FormMenu='{"alloc", "detached"}'),
                              exact_tags=ALL, casekey=key,
                              want=lambda last, tr: last["op"].startswith("single_shot"))
        # the nonce layout far from 0 on contexts from REAL setups: counter jumps (hook) on both sides, then seal / open
        jkem = rot(list(KEMS), 2)
        setup_transitions(chk, ses, "gen_exact_jump",
                          setup_over(KemSet="{%d}" % jkem, KdfSet=kset([rot([1, 2, 3], 0)]), AeadSet="{1, 2, 3}", ModeSet="{0}",
                                     Vals='"leaf"', Shape='"one"', Perturb='{"none"}', Emit=True, MaxSetSeq=2, MaxSeals=1, MaxOpens=1),
                          exact_tags=ALL, casekey=key, want=lambda last, tr: last["op"] in ("seal", "open"))
        # every length 0..N of info, psk, psk_id (one at a time), one suite: a value cut at an internal buffer size shows
        skem = rot(list(KEMS), 1)
        setup_transitions(chk, ses, "gen_exact_sweep",
                          setup_over(KemSet="{%d}" % skem, KdfSet=kset([rot([1, 2, 3], 2)]), AeadSet=kset([rot([1, 2, 3], 1)]),
                                     ModeSet="{0, 3}", Vals='"leaf"', Shape='"sweep"', SweepMax=300 if thorough else 140,
                                     # ... sparsely on to 1200: every 3rd length and +-2 around every multiple of 64
                                     SweepExtra=kset(sorted(set(range(301 if thorough else 141, 1201 if thorough else 701, 3))
                                                            | {64 * k + d for k in range(3, 19 if thorough else 11) for d in (-2, -1, 0, 1, 2)}
                                                            | set(hashed_boundaries((1024, 4096) if not thorough else (1024, 2048, 4096, 8192))))),
                                     Perturb="{}", Emit=True, MaxExports=1),
                          exact_tags=ALL, casekey=key,
                          want=lambda last, tr: last["op"] == "setup_s" or (last["op"] == "export" and last["plain"]["len"] == 32
                                                                           and not last["bytes"]["exporter_ctx"]))
        # impl -> spec: random sessions; the specification's predicted outputs are evaluated by the oracle
        traces(chk, "session", 10 if thorough else 1, "random sessions (exact)", exact_tags=ALL,
               nsessions=8 if thorough else 4, nsteps=30, long=thorough)
    finally:
        ses.close()
    require_outcomes(chk, ['setup_s/ok', 'setup_r/ok', 'seal/ok', 'seal/panic', 'open/ok', 'export/ok', 'single_shot_seal/ok', 'single_shot_open/ok'])
    chk.cov["rule"] = ("every transition of the bounded setup model for all 48 suites x 4 modes (setup_s, setup_r, seal, "
                       "open, export, single-shot seal/open; both API forms), each an implementation test in which "
                       "every returned byte must equal the oracle's evaluation of the specification's term; "
                       "distinct = distinct (suite, mode, call, form, context, outcome, arguments)")
    chk.cov["exhaustive"] = True


def blen_of(chunks):
    from oracle.terms import blen
    return blen(chunks)


def rot(seq, k):
    """seed-rotated choice, so that successive seeds sweep the whole range"""
    return seq[(seed() + k) % len(seq)]


def hashed_boundaries(sizes=(1024, 2048, 4096, 8192), headers=(26, 28, 23)):
    """input lengths at which the string that is actually HASHED - "HPKE-v1" || suite_id || label || input, headers of
    26 (info_hash), 28 (psk_id_hash), 23 (secret) bytes - reaches a multiple of a power of two (a staging buffer)"""
    return sorted({b * m - h + d for b in sizes for m in (1, 2) for h in headers for d in (-1, 0, 1)})


def kset(xs):
    return "{" + ", ".join(str(x) for x in xs) + "}"


def qset(xs):
    return "{" + ", ".join('"%s"' % x for x in xs) + "}"


def tr_key(tag):
    def key(last, tr):
        su, mo = suite_of(tr)
        return (tag, su, mo, last["op"], last.get("form"), last.get("c"), last["kind"], last.get("err"),
                json.dumps(last.get("plain"), sort_keys=True), _digest(last.get("bytes")), _digest(_origin_sig(tr)))
    return key


def _digest(x):
    import hashlib
    return hashlib.sha256(json.dumps(x, sort_keys=True).encode()).hexdigest()[:12]


def _origin_sig(tr):
    """what distinguishes the (sender, receiver) parameter pair of a transition: the receiver's setup arguments"""
    made = tr.get("made") if isinstance(tr.get("made"), dict) else {}
    sig = {}
    for c in ("r", "i", "t"):
        if made.get(c):
            st = made[c][0]
            sig[c] = [st["plain"], st["bytes"]]
    return sig


# ------------------------------------------------------------------------------------------- C01
@prop("C01")
def c01(chk, tier):
    thorough = tier == "thorough"
    chk.assumptions += [
        "pattern mode: no byte is compared with the oracle; predicted result kinds, returned plaintexts (the driver's "
        "own leaves), ciphertext / tag lengths and the equality pattern of all outputs are compared, so a change "
        "applied symmetrically to both roles leaves C01 green (that is C02) while any asymmetry turns it red",
        "quick tier samples one KDF per KEM (rotating with VERIF_SEED); thorough covers all 36 sealing suites"]
    model_check(chk, "MC_Setup", "MC_Setup.cfg", "mc_roundtrip",
                setup_over(KemSet=kset(KEMS), KdfSet="{1, 2, 3}", AeadSet="{1, 2, 3}", Vals='"leaf"', Shape='"one"',
                           Perturb='{"none"}', MaxSeals=2, MaxOpens=2, FormMenu='{"alloc", "detached"}'),
                invariants=["Binding", "CtLen", "AcceptsOnlySealed", "RcvdInOrder"], properties=[])
    ses = Session(chk)
    try:
        for i, kem in enumerate(KEMS):
            kdfs = [1, 2, 3] if thorough else [rot([1, 2, 3], i)]
            setup_transitions(chk, ses, "gen_rt_%d" % kem,
                              setup_over(KemSet="{%d}" % kem, KdfSet=kset(kdfs), AeadSet="{1, 2, 3}",
                                         Vals='"leaf"', Shape='"one"', Perturb='{"none"}',
                                         Emit=True, MaxSeals=3, MaxOpens=3, FormMenu='{"alloc", "detached"}'),
                              casekey=tr_key("c01"))
            if thorough:
                setup_transitions(chk, ses, "gen_rt_all_%d" % kem,
                                  setup_over(KemSet="{%d}" % kem, KdfSet=kset([rot([1, 2, 3], i + 1)]), AeadSet=kset([rot([1, 2, 3], i)]),
                                             Vals='"leaf"', Shape='"all"', Perturb='{"none"}',
                                             Emit=True, MaxSeals=2, MaxOpens=2, FormMenu='{"alloc", "detached"}'),
                                  casekey=tr_key("c01a"))
        # message sizes straddling the AEAD block sizes, raw contexts, in-order delivery only
        for aead in (1, 2, 3):
            for lv in (range(12) if thorough else (0, 4, 8)):
                batch = TransitionBatch(ses, label="sizes aead=%d lenvar=%d" % (aead, lv))

                def on(tr, batch=batch, aead=aead, lv=lv):
                    l = tr["last"]
                    batch.add(tr)
                    chk.case(("sz", aead, lv, l["op"], l["form"], l["kind"], json.dumps(l.get("plain"), sort_keys=True),
                              tuple(l["pre"]["seq"])))
                generate(chk, "MC_Seq", "MC_Seq.cfg", "gen_sizes_%d_%d" % (aead, lv),
                         seq_over(AeadC=aead, Starts='"zero"', Menu='"inorder"', Emit=True, MaxSeals=4, MaxOpens=4, LenVar=lv),
                         invariants=[], on_value=on, workers=4)
                batch.run()
        traces(chk, "session", 12 if thorough else 2, "random sessions", nsessions=8 if thorough else 5, nsteps=40,
               long=thorough)
        traces(chk, "lengths", 3 if thorough else 1, "every plaintext / aad length 0..N in one session",
               upto=400 if thorough else 300)
    finally:
        ses.close()
    require_outcomes(chk, ['setup_s/ok', 'setup_r/ok', 'seal/ok', 'open/ok', 'open/err/OpenError'])
    chk.cov["rule"] = ("every transition of the matching-pair setup model (suite x mode x both forms on both sides, <= 3 "
                       "messages delivered in and out of order) plus in-order sessions over plaintext/aad sizes "
                       "0,1,15,16,17,32,33,64,255,256,257,4097; distinct = distinct (suite, mode, call, form, outcome, arguments)")


# ------------------------------------------------------------------------------------------- C07
C07_KINDS = ["none", "info", "psk", "pskid", "mode", "kdf", "aead", "skr", "enc", "pks", "shift", "encform"]
C07_BYTE_KINDS = ["none", "infobits", "pskbits", "pskidbits", "ext"]


@prop("C07")
def c07(chk, tier):
    thorough = tier == "thorough"
    chk.assumptions += [
        "spec level: HKDF, DH and the AEADs are a free term algebra (collision-free on the explored inputs); TLC "
        "searches the DESIGN for collisions between any two parameter tuples that differ in one component",
        "code level (pattern mode): the perturbed receiver must fail to open the sender's ciphertexts and every export "
        "of >= 16 bytes must differ between the two sides, while the unperturbed control receiver of the same model "
        "opens and agrees; no absolute byte is compared"]
    # the design: concrete strings over {00, 61} so that boundary shifts / empty-vs-zero collisions are searched
    model_check(chk, "MC_Setup", "MC_Setup.cfg", "mc_binding",
                setup_over(KemSet="{32, 16}" if not thorough else kset(KEMS), KdfSet="{1}" if not thorough else "{1, 3}",
                           AeadSet="{1, 3, 65535}", Vals='"small"', Perturb=qset(C07_KINDS), Shape='"all"'),
                invariants=["Binding", "AuthSound", "PskSound"], properties=[], workers=NCPU, timeout=3600)
    ses = Session(chk)
    try:
        want = lambda last, tr: last["op"] in ("setup_r", "open", "export")
        for i, kem in enumerate(KEMS if thorough else (rot([32, 16], 0), rot([17, 18, 32, 16], 0))):
            setup_transitions(chk, ses, "gen_bind_%d" % kem,
                              setup_over(KemSet="{%d}" % kem, KdfSet="{1, 2, 3}" if thorough else kset([rot([1, 2, 3], i)]),
                                         AeadSet="{1, 3}",
                                         Vals='"small"', Shape='"one"', Perturb=qset(C07_KINDS),
                                         Emit=True, MaxSeals=1, MaxOpens=1, MaxExports=2 if thorough else 1),
                              want=want, casekey=tr_key("c07"))
            if thorough and kem == 32:
                # every sender shape of the small value space (the design-level search above covers them on the model)
                setup_transitions(chk, ses, "gen_bind_all",
                                  setup_over(KemSet="{32}", KdfSet="{1}", AeadSet="{1}", Vals='"small"', Shape='"all"',
                                             Perturb=qset(C07_KINDS), Emit=True, MaxSeals=1, MaxOpens=1, MaxExports=1),
                                  want=want, casekey=tr_key("c07"))
            # byte level: every bit of 32/65-byte info / psk / psk_id, appended and prepended zero bytes
            if not thorough and i != 0:
                continue
            setup_transitions(chk, ses, "gen_bits_%d" % kem,
                              setup_over(KemSet="{%d}" % kem, KdfSet=kset([rot([1, 2, 3], i + 2)]), AeadSet="{2}",
                                         ModeSet="{0, 3}" if not thorough else "{0, 1, 2, 3}",
                                         Vals='"leaf"', Shape='"one"', Perturb=qset(C07_BYTE_KINDS),
                                         Emit=True, MaxSeals=1, MaxOpens=1, MaxExports=1),
                              want=want, casekey=tr_key("c07b"))
        # every LENGTH 0..N of info / psk / psk_id (one at a time): the receiver differs in the last or second-to-last byte
        setup_transitions(chk, ses, "gen_lastbyte",
                          setup_over(KemSet="{32}", KdfSet=kset([rot([1, 2, 3], 1)]), AeadSet=kset([rot([1, 2, 3], 2)]), ModeSet="{1}",
                                     Vals='"leaf"', Shape='"sweep"', SweepMax=1100 if thorough else 600, Perturb='{"none", "lastbyte"}',
                                     SweepExtra=kset(hashed_boundaries()),
                                     Emit=True, MaxSeals=1, MaxOpens=1, MaxExports=1),
                          want=lambda last, tr: last["op"] in ("setup_r", "open"), casekey=tr_key("c07l"))
        traces(chk, "session", 10 if thorough else 2, "random sessions with one differing receiver argument",
               nsessions=8, nsteps=12, mismatch=1.0)
        # the differing value collides with the sender's under a weak digest (a cache keyed by a hash of info / psk_id / psk)
        for suite in ([(32, 1, 1), (16, 2, 2), (32, 3, 3), (17, 1, 65535)] if thorough else [rot([(32, 1, 1), (16, 2, 2), (32, 3, 3)], 0)]):
            traces(chk, "weakhash", 1, "receiver argument that collides with the sender's under a non-cryptographic digest",
                   suite=suite)
    finally:
        ses.close()
    require_outcomes(chk, ['setup_r/ok', 'open/ok', 'open/err/OpenError', 'export/ok'])
    chk.cov["rule"] = ("sender x receiver pairs where the receiver differs in exactly one component (other info / psk / psk_id "
                       "value, other mode with the same PSK data, other KDF, other AEAD, other recipient key, other "
                       "encapsulated key, other expected sender key, bytes moved between info and psk_id, every single bit "
                       "of info / psk / psk_id, appended / prepended zero byte); distinct = distinct (suite, mode, receiver "
                       "arguments, call, outcome)")


# ------------------------------------------------------------------------------------------- C08
@prop("C08")
def c08(chk, tier):
    thorough = tier == "thorough"
    chk.assumptions += [
        "spec level: free term algebra with DH(a, PK(b)) = DH(b, PK(a)) as the only law",
        "code level (pattern mode): the receiver that expects pkS is handed the encapsulated key of an impostor "
        "(other identity pair; honest pkS paired with a foreign private key; non-authenticated mode; wrong PSK): it must "
        "reject the impostor's ciphertexts and export different secrets, while it opens the honest sender's messages"]
    # (the design-level search covers all four KEMs in both tiers)
    model_check(chk, "MC_Setup", "MC_Setup.cfg", "mc_auth",
                setup_over(KemSet=kset(KEMS), KdfSet="{1}", AeadSet="{1}", ModeSet="{1, 2, 3}", Vals='"small"',
                           Shape='"one"', Perturb='{"none", "pks", "psk"}', Impost=True),
                invariants=["Binding", "AuthSound", "PskSound"], properties=[])
    ses = Session(chk)
    try:
        want = lambda last, tr: last["op"] in ("setup_s", "setup_r", "open", "export")
        for i, kem in enumerate(KEMS):
            # impostor senders against the receiver that expects the honest identity / PSK
            # (quick: the PSK-only mode on X25519 only; the authenticated modes on every KEM)
            setup_transitions(chk, ses, "gen_auth_%d" % kem,
                              setup_over(KemSet="{%d}" % kem, KdfSet=kset([rot([1, 2, 3], i)]),
                                         AeadSet=kset([rot([1, 2, 3], i + 1)]),
                                         ModeSet="{1, 2, 3}" if (thorough or kem == 32) else "{2, 3}",
                                         Vals='"leaf"', Shape='"one"', Perturb='{"none"}',
                                         Impost=True, Emit=True, MaxSeals=2, MaxOpens=2 if thorough else 1, MaxExports=1),
                              want=want, casekey=tr_key("c08"))
            # receivers that expect another identity key / hold another PSK (every single PSK bit)
            setup_transitions(chk, ses, "gen_psk_%d" % kem,
                              setup_over(KemSet="{%d}" % kem, KdfSet=kset([rot([1, 2, 3], i + 1)]),
                                         AeadSet=kset([rot([1, 2, 3], i)]), ModeSet="{1, 2, 3}",
                                         Vals='"leaf"', Shape='"one"',
                                         Perturb='{"none", "pks", "psk", "pskbits"}' if thorough or kem == rot(list(KEMS), 0) or kem == 32 else '{"none", "pks", "psk"}',
                                         Emit=True, MaxSeals=1, MaxOpens=1, MaxExports=1),
                              want=want, casekey=tr_key("c08p"))
    finally:
        ses.close()
    require_outcomes(chk, ['setup_s/ok', 'setup_r/ok', 'open/ok', 'open/err/OpenError', 'export/ok'])
    chk.cov["rule"] = ("4 KEMs x {Psk, Auth, AuthPsk} (quick: the PSK-only mode on X25519 only): honest sender, impostors (foreign key pair, public half only, "
                       "non-authenticated mode, wrong PSK incl. every single PSK bit) against a receiver expecting pkS / the "
                       "PSK; distinct = distinct (suite, mode, impostor and receiver arguments, call, outcome)")


# ------------------------------------------------------------------------------------------- C10
@prop("C10")
def c10(chk, tier):
    thorough = tier == "thorough"
    chk.assumptions += [
        "the 14 small-order encodings are literals in the specification (HpkeKem.tla); the oracle's self-test proves "
        "by computation that each gives an all-zero X25519 output and that the negative examples do not",
        "pattern mode: for keys that are not of small order only 'setup succeeds' is compared, nothing about bytes"]
    over = setup_over(KemSet="{32}", KdfSet="{1, 2, 3}" if thorough else kset([rot([1, 2, 3], 0)]),
                      AeadSet="{1, 2, 3, 65535}" if thorough else kset([rot([1, 2, 3], 0), 65535]),
                      Vals='"leaf"', Shape='"one"', BadPkR='"all"',
                      Perturb='{"none", "encsmall", "pkssmall", "encother"}', FormMenu='{"alloc", "detached"}')
    shots = dict(over, ShotsOnly="TRUE", ShotDl='"msg"', MaxShots="2",
                 AeadSet="{1, 2, 3}" if thorough else kset([rot([1, 2, 3], 0)]))
    model_check(chk, "MC_Setup", "MC_Setup.cfg", "mc_smallorder", over, invariants=["Binding"], properties=[])
    model_check(chk, "MC_Setup", "MC_Setup.cfg", "mc_smallorder_shot", shots, invariants=[], properties=[])
    ses = Session(chk)
    try:
        setup_transitions(chk, ses, "gen_smallorder", dict(over, Emit="TRUE"),
                          want=lambda last, tr: last["op"] in ("setup_s", "setup_r"), casekey=tr_key("c10"))
        setup_transitions(chk, ses, "gen_smallorder_shot", dict(shots, Emit="TRUE"),
                          want=lambda last, tr: last["op"] in ("single_shot_seal", "single_shot_open"),
                          casekey=tr_key("c10s"))
        c10_kem_level(chk, ses, thorough)
    finally:
        ses.close()
    require_outcomes(chk, ['setup_s/err/EncapError', 'setup_r/err/DecapError', 'setup_s/ok', 'setup_r/ok', 'single_shot_seal/err/EncapError', 'single_shot_open/err/DecapError'])
    chk.cov["exhaustive"] = True
    chk.cov["rule"] = ("the 14 small-order X25519 encodings (and 5 other raw 32-byte strings incl. non-canonical ones as "
                       "negatives) as recipient key on the sender side, as encapsulated key and as sender identity key on the "
                       "receiver side, x 4 modes x {setup, single-shot}, plus Kem::encap / Kem::decap; distinct = distinct "
                       "(suite, mode, call, arguments, outcome)")


def c10_kem_level(chk, ses, thorough):
    key = lambda l: ("c10k", l["op"], l["kind"], l["err"], _digest(l["bytes"]))
    stateless_calls(chk, ses, "MC_Kem", "MC_Kem.cfg", "gen_kem_smallorder",
                    dict(KemSet="{32}", NIkm="0", SmallOrder="TRUE", Emit="TRUE", IkmSweep="0"), ALL, key,
                    want=lambda l: l["op"] in ("encap", "decap"), compare_bytes=False)


# ------------------------------------------------------------------------------------------- C14
@prop("C14")
def c14(chk, tier):
    thorough = tier == "thorough"
    chk.assumptions += [
        "the specification DEFINES the single-shot and allocating forms as compositions of the step operators; the "
        "check is conformance of both forms to that one definition: in pattern mode equal predicted terms must be "
        "equal bytes, so single-shot output == setup + seal output with the same RNG script, and allocating seal == "
        "in-place ciphertext || detached tag (twin sender with identical parameters and randomness)",
        "no byte is compared with the oracle: a key-schedule deviation affects both forms alike and is C02's subject"]
    ses = Session(chk)
    try:
        for i, kem in enumerate(KEMS):
            x = kem == 32
            aeads = kset([rot([1, 2, 3], i), rot([1, 2, 3], i + 1), 65535]) if thorough else kset([rot([1, 2, 3], i), 65535] if x else [rot([1, 2, 3], i)])
            kdfs = kset([rot([1, 2, 3], i), rot([1, 2, 3], i + 1)]) if thorough else kset([rot([1, 2, 3], i)])
            # allocating vs in-place detached: twin senders seal the same messages in the two forms
            forms = setup_over(KemSet="{%d}" % kem, KdfSet=kdfs, AeadSet=aeads, Vals='"leaf"', Shape='"one"', Twin=True,
                               Perturb='{"none", "skr"}', MaxSeals=2, MaxOpens=2, FormMenu='{"alloc", "detached"}')
            # single-shot vs setup + one call: same parameters, same RNG script, same message
            shots = setup_over(KemSet="{%d}" % kem, KdfSet=kdfs, AeadSet=aeads, Vals='"leaf"', Shape='"one"', BadPkR='"one"' if x else '"none"',
                               Perturb='{"none", "skr", "encsmall1"}' if x else '{"none", "skr"}',
                               MaxSeals=1, MaxOpens=1, MaxShots=2, FormMenu='{"alloc", "detached"}')
            if i == 0:
                model_check(chk, "MC_Setup", "MC_Setup.cfg", "mc_forms", forms, invariants=["Binding", "CtLen"], properties=[])
                model_check(chk, "MC_Setup", "MC_Setup.cfg", "mc_shots", shots, invariants=["Binding", "CtLen"], properties=[])
            setup_transitions(chk, ses, "gen_forms_%d" % kem, dict(forms, Emit="TRUE"),
                              want=lambda last, tr: last["op"] in ("seal", "open"), casekey=tr_key("c14f"))
            setup_transitions(chk, ses, "gen_shots_%d" % kem, dict(shots, Emit="TRUE"),
                              want=lambda last, tr: last["op"] in ("single_shot_seal", "single_shot_open"),
                              casekey=tr_key("c14s"))
        # the allocating open must refuse what has no (ciphertext, tag) split for the in-place open: a tag-only message
        # with its last bytes removed, over many different tags (see C06)
        c06_short_sweep(chk, ses, thorough)
    finally:
        ses.close()
    require_outcomes(chk, ['seal/ok', 'open/ok', 'single_shot_seal/ok', 'single_shot_open/ok', 'single_shot_open/err/OpenError', 'single_shot_open/err/DecapError', 'single_shot_seal/err/EncapError'])
    chk.cov["rule"] = ("single-shot seal/open (both forms) next to setup + seal/open with the identical RNG script and split, "
                       "twin senders sealing the same message in the allocating and the detached form; success and failure "
                       "paths (small-order recipient / encapsulated key, wrong recipient key, wrong info, flipped ciphertext, "
                       "tag, aad, truncated below a tag); distinct = distinct (suite, mode, call, form, arguments, outcome)")


# ------------------------------------------------------------------------------------------- C11
@prop("C11")
def c11(chk, tier):
    thorough = tier == "thorough"
    chk.assumptions += [
        "value part (exact): contexts are built by the raw-context hook from a driver-chosen exporter secret, so only "
        "Context.Export / LabeledExpand / suite_id are involved; bytes are compared with the oracle's HKDF-Expand",
        "purity / symmetry / history independence (pattern mode) on real setups of both roles: the same (context, L) "
        "exported after any history of seals, opens and refusals, and on the peer, must give identical bytes"]
    model_check(chk, "MC_Seq", "MC_Seq.cfg", "mc_export",
                seq_over(AeadC=1, KdfC=1, Starts='"edge"', Menu='"small"', ExpMenu='"lens"', MaxSeals=2, MaxOpens=2, MaxExports=2),
                invariants=["AcceptsOnlySealed"], properties=["Latch"])
    ses = Session(chk)
    try:
        # value + bound, raw contexts, all KDFs, both roles, interleaved with seals/opens/refusals
        for kdf in (1, 2, 3):
            for aead in ((1, 2, 3, 65535) if thorough else (rot([1, 2, 3], kdf), 65535)):
                batch = TransitionBatch(ses, exact_tags={"expand"}, label="export kdf=%d aead=%d" % (kdf, aead))

                def on(tr, batch=batch, kdf=kdf, aead=aead):
                    l = tr["last"]
                    if l["op"] != "export" and aead != 65535 and (l["kind"] == "ok" or l["op"] not in ("seal", "open")):
                        return      # (refused / rejected seals and opens stay: the exports of that state are repeated after them)
                    batch.add(tr)
                    chk.case(("x", kdf, aead, l["op"], l["c"], l["kind"], l["err"], json.dumps(l["plain"], sort_keys=True),
                              json.dumps(l["bytes"], sort_keys=True)[:80], tuple(l["pre"]["seq"]), l["pre"]["ovf"]))
                generate(chk, "MC_Seq", "MC_Seq.cfg", "gen_export_%d_%d" % (kdf, aead),
                         seq_over(AeadC=aead, KdfC=kdf, Starts='"edge"', Menu='"small"', ExpMenu='"lens"', Emit=True,
                                  MaxSeals=1, MaxOpens=1, MaxExports=1),
                         invariants=[], on_value=on, workers=4)
                batch.run()
        # every exporter-context length 0..N (exact), one KDF per run
        for kdf in ((1, 2, 3) if thorough else (rot([1, 2, 3], 0),)):
            batch = TransitionBatch(ses, exact_tags={"expand"}, label="exporter-context length sweep kdf=%d" % kdf)

            def onl(tr, batch=batch, kdf=kdf):
                l = tr["last"]
                if l["op"] == "export" and l["c"] == "r":
                    batch.add(tr)
                    chk.case(("ctxlen", kdf, blen_of(l["bytes"]["exporter_ctx"]), l["plain"]["len"]))
            generate(chk, "MC_Seq", "MC_Seq.cfg", "gen_ctxsweep_%d" % kdf,
                     seq_over(AeadC=2, KdfC=kdf, Starts='"zero"', ExpMenu='"ctxsweep"', SweepFrom=0, SweepTo=1100 if thorough else 520,
                              Emit=True, MaxSeals=0, MaxExports=1),
                     invariants=[], on_value=onl, workers=4)
            # ... and around every power of two up to 2^16, also 22 bytes below it (where the HASHED string gets there)
            generate(chk, "MC_Seq", "MC_Seq.cfg", "gen_ctxpow2_%d" % kdf,
                     seq_over(AeadC=2, KdfC=kdf, Starts='"zero"', ExpMenu='"ctxpow2"', Emit=True, MaxSeals=0, MaxExports=1),
                     invariants=[], on_value=onl, workers=4)
            batch.run()
        if thorough:
            # every L in 0..=65535 once per KDF (and beyond the 2^16 limit)
            for kdf in (1, 2, 3):
                for lo in range(0, 65600, 4100):
                    batch = TransitionBatch(ses, exact_tags={"expand"}, label="export sweep kdf=%d" % kdf)

                    def on(tr, batch=batch, kdf=kdf):
                        l = tr["last"]
                        if l["op"] == "export" and l["c"] == "s":
                            batch.add(tr)
                            chk.case(("sweep", kdf, l["plain"]["len"], l["kind"]))
                    generate(chk, "MC_Seq", "MC_Seq.cfg", "gen_sweep_%d_%d" % (kdf, lo),
                             seq_over(AeadC=3, KdfC=kdf, Starts='"zero"', ExpMenu='"sweep"', SweepFrom=lo, SweepTo=lo + 4099,
                                      Emit=True, MaxSeals=0, MaxExports=1),
                             invariants=[], on_value=on, workers=4)
                    batch.run()
        # real setups: both roles, every history, all suites incl. export-only
        for i, kem in enumerate(KEMS):
            setup_transitions(chk, ses, "gen_export_setup_%d" % kem,
                              setup_over(KemSet="{%d}" % kem, KdfSet="{1, 2, 3}" if thorough else kset([rot([1, 2, 3], i)]),
                                         AeadSet="{1, 2, 3, 65535}" if thorough else kset([rot([1, 2, 3], i), 65535]),
                                         Vals='"leaf"', Shape='"one"', Perturb='{"none"}', Emit=True,
                                         MaxSeals=2, MaxOpens=2, MaxExports=2),
                              want=lambda last, tr: last["op"] == "export" or (last["op"] in ("seal", "open") and last["kind"] == "panic"),
                              casekey=tr_key("c11"))
        # repeatable - also the 100 000th time, and after an exhausted context refused as many seals
        sender_soak(chk, ses, (1 << 20) + 9 if thorough else 100003)
    finally:
        ses.close()
    require_outcomes(chk, ['export/ok', 'export/err/KdfOutputTooLong', 'seal/panic', 'open/panic'])
    chk.cov["rule"] = ("exports for exporter-context classes x lengths {0,1,16,Nh-1,Nh,Nh+1,255Nh-1,255Nh,255Nh+1,65535,65536,70000} "
                       "x 3 KDFs x both roles x every interleaving with <=1-2 seals/opens/refusals incl. the latched state "
                       "(raw contexts, exact), and on real setups of both roles for all modes (pattern); export-only suites: "
                       "seal/open panic; distinct = distinct (kdf, aead, call, context, arguments, counter state, outcome)")


# ------------------------------------------------------------------------------------------- C03
def stateless_calls(chk, ses, module, base, name, over, exact_tags, casekey, want=None, adjacent=False, **kw):
    """models whose calls need no state (MC_Kem, MC_Codec): every printed call is one implementation test"""
    n = [0]

    def on(v):
        last = v["last"]
        if want and not want(last):
            return
        ses.replay([last], exact_tags=exact_tags, label=name, sample=(n[0] % 97 == 0), **kw)
        n[0] += 1
        chk.case(casekey(last))
    recs = []
    if adjacent:
        on0 = on

        def on(v):              # noqa: F811
            on0(v)
            if not want or want(v["last"]):
                recs.append(v["last"])
    generate(chk, module, base, name, over, invariants=None, on_value=on, workers=2)
    if n[0] == 0:
        raise ToolError("no call generated by %s" % name)
    if adjacent:
        adjacent_pass(chk, ses, recs, exact_tags, name, **kw)
    return n[0]


def adjacent_pass(chk, ses, recs, exact_tags, name, **kw):
    """Stateless calls are functions of their arguments - also right after a call that differs in ONE argument only
    (anything the library remembers keyed by the other arguments would serve the previous call's value).  Calls that
    agree in everything but one byte argument are made back to back, forward and backward."""
    groups = {}
    for l in recs:
        b = l.get("bytes") or {}
        if not isinstance(b, dict) or len(b) < 2:
            continue
        for f in b:
            k = json.dumps([l["op"], l["plain"], {x: y for x, y in b.items() if x != f}, f], sort_keys=True)
            groups.setdefault(k, []).append(l)
    done = 0
    for k, ls in sorted(groups.items()):
        if len(ls) < 2 or len(ls) > 12:
            continue
        seq = ls + ls[-2::-1]
        ses.replay(seq, exact_tags=exact_tags, label=name + " (neighbours: one argument differs)", sample=(done == 0), **kw)
        done += 1
    # ... and calls that hand the library an association it must not keep: an authenticated encapsulation with a
    # sender pair (sk, pk) - matching or not - right before calls that use that sk as the recipient key
    poison = [l for l in recs if l["op"] == "encap" and "sk_s" in (l.get("bytes") or {})]
    npo = 0
    for a in poison:
        later = [l for l in recs if l["op"] in ("decap", "sk_to_pk")
                 and (l["bytes"].get("sk_r") == a["bytes"]["sk_s"] or l["bytes"].get("sk") == a["bytes"]["sk_s"])
                 and l["plain"] == a["plain"]]
        for b in later[:6]:
            ses.replay([a, b], exact_tags=exact_tags, label=name + " (after an encapsulation with that private key as sender key)",
                       sample=False, **kw)
            npo += 1
    chk.case(("adjacent", name, done, npo))


@prop("C03")
def c03(chk, tier):
    thorough = tier == "thorough"
    chk.assumptions += [
        "exact mode: every returned byte is compared with the oracle's evaluation of the specification's term "
        "(X25519 private keys up to RFC 7748 clamping); arguments (keys, encapsulated keys) are computed by the oracle",
        "the rejection branch of the NIST DeriveKeyPair loop (counter >= 1) is exercised on P-256 only, through inputs "
        "found by exhaustive search (MC_Kem.tla RejectionWitnesses; the oracle confirms on every run that they take it); "
        "on P-384 / P-521 the branch has probability < 2^-190 per key and no input is known"]
    ses = Session(chk)
    try:
        key = lambda l: ("c03", l["op"], l["plain"]["kem"], l["kind"], l["err"], _digest(l["bytes"]))
        from oracle import terms as _terms
        _terms.STATS["firstvalid_retries"] = 0
        for kem in KEMS:
            stateless_calls(chk, ses, "MC_Kem", "MC_Kem.cfg", "gen_kem_%d" % kem,
                            dict(KemSet="{%d}" % kem, NIkm=str(2000 if thorough else 40), SmallOrder="FALSE", Emit="TRUE",
                                 IkmSweep=str(300 if thorough or kem == rot(list(KEMS), 0) else 140)),
                            ALL, key, adjacent=True)
        chk.notes["derive_keypair_inputs_that_took_the_rejection_branch"] = _terms.STATS["firstvalid_retries"]
        if _terms.STATS["firstvalid_retries"] < 1 and not chk.violations:
            # (with a violation on record the expected values of the deviating calls may never have been evaluated)
            raise ToolError("no DeriveKeyPair input exercised the rejection branch (stale witnesses in MC_Kem.tla)")
    finally:
        ses.close()
    chk.cov["rule"] = ("derive_keypair over ikm length classes {0,1,Nsk-1,Nsk,Nsk+1,64,65,1000} and seeded Nsk-byte values, "
                       "gen_keypair with 0/1/40 spare RNG bytes, sk_to_pk, encap/decap for all role assignments x "
                       "{plain, authenticated (matching and non-matching identity pair)} x 4 KEMs; distinct = distinct "
                       "(call, kem, arguments, outcome)")


# ------------------------------------------------------------------------------ C09 C12 C13 C15
def codec_over(part, **kw):
    d = dict(Part='"%s"' % part, KemSet="{32, 16, 17, 18}", NPer="2", AllTags="TRUE", Emit="TRUE")
    for k, v in kw.items():
        d[k] = tla(v)
    return d


def codec_key(l):
    return (l["op"], json.dumps(l["plain"], sort_keys=True), l["kind"], l["err"], _digest(l["bytes"]))


def nist_crosscheck(last):
    """the oracle classifies every NIST test input from the SEC1 / scalar-range definition, independently of the
    recipe that built it; the specification's expected result must agree (else the test construction is broken)"""
    from oracle import prims
    from oracle.terms import ExactEval, KEM_CURVE, sec1_facts
    pl = last["plain"]
    if last["op"] != "from_bytes" or pl.get("kem") not in KEM_CURVE:
        return
    b = ExactEval({}).eval(last["bytes"]["bytes"])
    curve = KEM_CURVE[pl["kem"]]
    if pl["ty"] == "sk":
        ok = prims.nist_sk_valid(curve, b)
        lenok = len(b) == prims.CURVES[curve].sk_len
    else:
        ok = prims.nist_classify_pk(curve, b) == "ok"
        lenok, tag, xr, yr, oc = sec1_facts(curve, b)
        if lenok and ok != (tag == 4 and xr and yr and oc):
            raise ToolError("oracle classifiers disagree on %s" % b.hex())
    want = "ok" if ok else "err"
    if last["kind"] != want or (not lenok) != (last["err"] == "IncorrectInputLength"):
        raise ToolError("specification expects %s/%s for an input the oracle classifies as %s (len ok: %s): %s"
                        % (last["kind"], last["err"], want, lenok, json.dumps(last["bytes"])[:200]))


@prop("C09")
def c09(chk, tier):
    thorough = tier == "thorough"
    chk.assumptions += [
        "test inputs are built by the oracle's big-integer curve arithmetic from the recipes the specification names "
        "(valid / negated point, y+1, invalid-curve point, twist abscissa, (0,0), swapped coordinates, x+p and y+p "
        "non-canonical encodings of valid points, coordinates = p or all-ones, compressed / hybrid forms, prefixes and "
        "extensions; scalars 0, 1, n-1, n, n+1, n+r, 2^8N-1, P-521 bits 520/521/527) and classified independently from "
        "the SEC1 definition; exact mode: accepted inputs must re-serialise to themselves",
        "the random part of each recipe is seeded; thorough uses 50 members per recipe and every leading byte"]
    ses = Session(chk)
    try:
        n = [0]

        def on(v):
            last = v["last"]
            nist_crosscheck(last)
            ses.replay([last], exact_tags=ALL, label="from_bytes", sample=(n[0] % 5003 == 0))
            n[0] += 1
            chk.case(codec_key(last))
        generate(chk, "MC_Codec", "MC_Codec.cfg", "gen_nist", codec_over("nist", KemSet="{16, 17, 18}", NPer=50 if thorough else 2),
                 invariants=None, on_value=on, workers=2, timeout=7200)
        # random strings of each relevant length (all rejected, except with negligible probability)
        rnd = random.Random(seed())
        from oracle import prims
        from oracle.terms import KEM_CURVE
        for kem, curve in KEM_CURVE.items():
            c = prims.CURVES[curve]
            for ty, size in (("pk", c.pk_len), ("enc", c.pk_len), ("sk", c.sk_len)):
                for _ in range(2000 if thorough else 100):
                    b = bytes(rnd.getrandbits(8) for _ in range(size))
                    if ty != "sk" and rnd.random() < 0.5:
                        b = b"\x04" + b[1:]
                    ok = prims.nist_sk_valid(curve, b) if ty == "sk" else prims.nist_classify_pk(curve, b) == "ok"
                    step = {"op": "from_bytes", "c": "", "form": "", "plain": {"ty": ty, "kem": kem},
                            "bytes": {"bytes": [["b", list(b)]]}, "kind": "ok" if ok else "err",
                            "err": "" if ok else "ValidationError", "payload": [],
                            "out": {"reser": [["b", list(b)]]} if ok else {}, "outn": {}, "pre": {}, "post": {},
                            "untouched": False}
                    ses.replay([step], exact_tags=ALL, label="random %s" % ty, sample=False)
                    chk.case(("rand", kem, ty, b.hex()))
    finally:
        ses.close()
    chk.cov["exhaustive"] = True
    chk.cov["rule"] = ("the full decision table 3 curves x {public, encapsulated, private key} x every leading byte 0..255 x "
                       "coordinate / scalar recipes x lengths {0,1,Ncoord,Ncoord+1,N-1,N,N+1,2N} plus seeded random strings; "
                       "distinct = distinct (type, curve, input bytes)")


@prop("C12")
def c12(chk, tier):
    thorough = tier == "thorough"
    chk.assumptions += [
        "exact mode on the bytes: a derived key / encapsulated key / tag re-serialises to the identical bytes (X25519 "
        "private keys: to the same scalar after RFC 7748 clamping); sizes are the RFC 9180 table values in the spec"]
    ses = Session(chk)
    try:
        n = [0]

        def on(v):
            last = v["last"]
            ses.replay([last], exact_tags=ALL, label=last["op"], sample=(n[0] % 701 == 0))
            n[0] += 1
            chk.case(codec_key(last))
        generate(chk, "MC_Codec", "MC_Codec.cfg", "gen_sizes", codec_over("sizes"), invariants=None, on_value=on, workers=2)
        # accepted NIST inputs of C09's generator re-serialise canonically (shared recipe set, fewer members)
        def on2(v):
            last = v["last"]
            # every input: whatever is accepted must re-serialise to itself, wrong lengths must carry (expected, given)
            ses.replay([last], exact_tags=ALL, label="canonical", sample=False)
            chk.case(codec_key(last))
        generate(chk, "MC_Codec", "MC_Codec.cfg", "gen_nist_ok", codec_over("nist", KemSet="{16, 17, 18}", NPer=10 if thorough else 1, AllTags=False),
                 invariants=None, on_value=on2, workers=2)
    finally:
        ses.close()
    chk.cov["exhaustive"] = True
    chk.cov["rule"] = ("4 KEMs x {public, private, encapsulated key} + 4 tag types: size(), from_bytes(to_bytes(v)), write_exact "
                       "into every buffer length 0..2*size+2, from_bytes of every input length 0..2*size+2 (both also at size + 256, "
                       "+ 512, + 768, + 65536, + 131072: wrong lengths that look right after a truncating cast), raw 32-byte X25519 "
                       "strings, accepted NIST encodings; distinct = distinct (call, type, algorithm, length/arguments)")


@prop("C15")
def c15(chk, tier):
    thorough = tier == "thorough"
    chk.assumptions += [
        "constructor: decision table over length pairs {0,1,2,31,32,33,64,255,256,257,512,1000,65535,65536,70000}^2",
        "wiring: the observed export of a Psk/AuthPsk (and Base/Auth) context is compared with the oracle's value for the "
        "RFC wiring and for each mis-wiring hypothesis (psk and psk_id swapped, one of them dropped or duplicated, "
        "non-empty defaults); only a positive match with a mis-wiring is a C15 violation, a match with nothing is "
        "reported as inconclusive (the deviation then lies elsewhere in the key schedule: C02's subject)"]
    ses = Session(chk)
    try:
        def on(v):
            last = v["last"]
            ses.replay([last], exact_tags=ALL, label="psk_bundle_new", sample=(last["kind"] == "err"))
            chk.case(codec_key(last))
        generate(chk, "MC_Codec", "MC_Codec.cfg", "gen_psk", codec_over("psk"), invariants=None, on_value=on, workers=1)
        c15_wiring(chk, ses, thorough)
    finally:
        ses.close()
    chk.cov["rule"] = ("PskBundle::new for all pairs of lengths incl. the four emptiness combinations; key-schedule wiring of "
                       "(psk, psk_id) per mode by hypothesis discrimination on all 4 KEMs; distinct = distinct (call, lengths) "
                       "resp. (suite, mode)")


def c15_wiring(chk, ses, thorough):
    from oracle.terms import ExactEval, leaves_of
    from .replay import Replayer, make_leaves, SHARED_MEMO
    verdicts = {"rfc": 0, "inconclusive": 0}
    for i, kem in enumerate(KEMS):
        got = []
        generate(chk, "MC_Setup", "MC_Setup.cfg", "gen_wiring_%d" % kem,
                 setup_over(KemSet="{%d}" % kem, KdfSet="{1, 2, 3}" if thorough else kset([rot([1, 2, 3], i)]),
                            AeadSet="{1, 2, 3, 65535}" if thorough else kset([rot([1, 2, 3, 65535], i)]),
                            ModeSet="{1, 3}", Vals='"leaf"',
                            Shape='"sweep"' if kem == 32 else ('"all"' if thorough else '"one"'),
                            SweepMax=300 if thorough else 140, Perturb='{"none"}', EmitWiring=True),
                 invariants=[], on_value=got.append, workers=1)
        if not got or "wiring" not in got[0]:
            raise ToolError("no wiring records")
        pro = {e["kem"]: [e["pro"][k] for k in sorted(e["pro"])] for e in got[0]["prologue"]}
        for w in got[0]["wiring"]:
            steps = pro[kem] + [w["setup"], w["export"]]
            leaves = make_leaves(leaves_of([steps, w["hyps"]]), seed())
            ses.n += 1
            rp = Replayer(ses.ex, leaves, exact_tags=frozenset(), prefix="w%d_" % ses.n, compare_bytes=False)
            idx, bad = rp.run(steps)
            ses.ex.call({"op": "drop", "ctx": "w%d_s" % ses.n})
            if idx is not None:
                # setup or export did not even succeed: not a wiring question
                verdicts["inconclusive"] += 1
                continue
            observed = bytes.fromhex(rp.trace[-1][1]["ok"]["out"])
            ev = ExactEval(leaves)
            ev.memo = SHARED_MEMO
            match = [h for h in sorted(w["hyps"]) if ev.eval(w["hyps"][h]) == observed]
            su, mo = tuple(w["setup"]["plain"]["suite"]), w["setup"]["plain"]["mode"]
            chk.case(("wiring", su, mo, _digest(w["setup"]["bytes"])))
            if "rfc" in match:
                verdicts["rfc"] += 1
                chk.trace_ok()
            elif match:
                chk.violation("key schedule wires the PSK bundle as hypothesis %r (suite %s mode %d): the export equals "
                              "what that mis-wiring gives, not the RFC 9180 value" % (match[0], list(su), mo),
                              {"kind": "wiring", "seed": seed(), "steps": steps, "hyps": w["hyps"], "matched": match,
                               "observed": observed.hex(), "fingerprint": "wiring-" + match[0]})
            else:
                verdicts["inconclusive"] += 1
    chk.notes["wiring_verdicts"] = verdicts
    if verdicts["rfc"] == 0 and verdicts["inconclusive"] > 0:
        log("C15 wiring: every case inconclusive (the key schedule deviates elsewhere; see C02)")


# ------------------------------------------------------------------------------------------- C13
@prop("C13")
def c13(chk, tier):
    thorough = tier == "thorough"
    chk.assumptions += [
        "the executor is built with overflow checks and debug assertions, so an arithmetic wrap is a panic; every call "
        "runs under catch_unwind and a panic is a result kind the specification never predicts for these entry points",
        "inputs of the length classes {0,1,15,16,17,31..33,63..67,96..98,132..134,65535,65536,70000} with seeded contents; "
        "the expected result of every call comes from the specification (error variant and payload included)"]
    ses = Session(chk)
    try:
        n = [0]

        def on(v):
            last = v["last"]
            ses.replay([last], exact_tags=ALL, label=last["op"], sample=(n[0] % 401 == 0))
            n[0] += 1
            chk.case(codec_key(last))
        for part in ("lengths", "kdf"):
            generate(chk, "MC_Codec", "MC_Codec.cfg", "gen_" + part, codec_over(part), invariants=None, on_value=on, workers=2)
        # key derivation from ikm of any length
        stateless_calls(chk, ses, "MC_Kem", "MC_Kem.cfg", "gen_ikm", dict(KemSet=kset(KEMS), NIkm="0", SmallOrder="FALSE", Emit="TRUE", IkmSweep="0"),
                        ALL, lambda l: ("ikm", l["plain"]["kem"], _digest(l["bytes"])), want=lambda l: l["op"] == "derive_keypair")
        # opening entry points: arbitrary bytes of every length class, both forms, 3 AEADs (raw contexts)
        for aead in (1, 2, 3):
            batch = TransitionBatch(ses, label="open garbage aead=%d" % aead)

            def ono(tr, batch=batch, aead=aead):
                l = tr["last"]
                if l["op"] == "open":
                    batch.add(tr)
                    chk.case(("og", aead, l["form"], json.dumps(l["plain"], sort_keys=True), tuple(l["pre"]["seq"]), l["pre"]["ovf"]))
            generate(chk, "MC_Seq", "MC_Seq.cfg", "gen_garbage_%d" % aead,
                     seq_over(AeadC=aead, Starts='"edge"', Menu='"lengths"', Emit=True, MaxSeals=1, MaxOpens=1),
                     invariants=[], on_value=ono, workers=4)
            batch.run()
        # EVERY length 0..N of the exporter context (and +-2 around every power of two up to 2^16), raw contexts
        for kdf in ((1, 2, 3) if thorough else (rot([1, 2, 3], 1),)):
            batch = TransitionBatch(ses, label="exporter-context lengths kdf=%d" % kdf)

            def onx(tr, batch=batch, kdf=kdf):
                l = tr["last"]
                if l["op"] == "export":
                    batch.add(tr)
                    chk.case(("xl", kdf, l["c"], blen_of(l["bytes"]["exporter_ctx"]), l["plain"]["len"]))
            generate(chk, "MC_Seq", "MC_Seq.cfg", "gen_ctxlen_%d" % kdf,
                     seq_over(AeadC=rot([1, 2, 3], kdf), KdfC=kdf, Starts='"zero"', ExpMenu='"ctxsweep"', SweepFrom=0,
                              SweepTo=1100 if thorough else 700, Emit=True, MaxSeals=0, MaxExports=1),
                     invariants=[], on_value=onx, workers=4)
            generate(chk, "MC_Seq", "MC_Seq.cfg", "gen_ctxpow2_%d" % kdf,
                     seq_over(AeadC=rot([1, 2, 3], kdf), KdfC=kdf, Starts='"zero"', ExpMenu='"ctxpow2"', Emit=True, MaxSeals=0, MaxExports=1),
                     invariants=[], on_value=onx, workers=4)
            batch.run()
        # EVERY length 0..N of info, psk, psk_id (one at a time) through both setups and an export
        skem = rot(list(KEMS), 0)
        setup_transitions(chk, ses, "gen_len_sweep",
                          setup_over(KemSet="{%d}" % skem, KdfSet=kset([rot([1, 2, 3], 0)]), AeadSet=kset([rot([1, 2, 3], 2)]),
                                     ModeSet="{0, 3}", Vals='"leaf"', Shape='"sweep"', SweepMax=1100 if thorough else 600,
                                     Perturb='{"none"}', Emit=True, MaxExports=1),
                          casekey=tr_key("c13s"), compare_bytes=False,
                          want=lambda last, tr: last["op"] in ("setup_s", "setup_r") or (last["op"] == "export" and not last["bytes"]["exporter_ctx"]))
        # setup / seal / open / export / single-shot with very long info, psk, psk_id, aad, plaintext, exporter context
        for i, kem in enumerate(KEMS):
            over = setup_over(KemSet="{%d}" % kem, KdfSet="{1, 2, 3}" if thorough else kset([rot([1, 2, 3], i)]),
                              AeadSet=kset([rot([1, 2, 3], i + 1)]),
                              Vals='"long"', Shape='"all"' if (thorough and kem == 32) else '"one"', Perturb='{"none", "info"}', Emit=True,
                              MaxSeals=1, MaxOpens=1, MaxExports=1, FormMenu='{"alloc", "detached"}')
            setup_transitions(chk, ses, "gen_long_%d" % kem, over, casekey=tr_key("c13"), compare_bytes=False)
        # setup can only fail with EncapError (sender) / DecapError (receiver): the X25519 keys that make it fail
        over = setup_over(KemSet="{32}", KdfSet=kset([rot([1, 2, 3], 1)]), AeadSet=kset([rot([1, 2, 3], 2)]),
                          Vals='"leaf"', Shape='"one"', BadPkR='"all"', Perturb='{"none", "encsmall", "pkssmall"}', Emit=True)
        setup_transitions(chk, ses, "gen_setup_errors", over, casekey=tr_key("c13e"), compare_bytes=False,
                          want=lambda last, tr: last["op"] in ("setup_s", "setup_r"))
        traces(chk, "session", 6 if thorough else 1, "random sessions with long inputs", nsessions=4, nsteps=20, long=True,
               mismatch=0.3)
        traces(chk, "seq", 4 if thorough else 1, "random deliveries", nsteps=300)
    finally:
        ses.close()
    chk.cov["rule"] = ("every byte-consuming entry point (key / encapsulated key / tag deserialisation, doc-hidden KDF helpers, "
                       "DeriveKeyPair, receiver and sender setup, seal, open in both forms, export, PskBundle::new) x length "
                       "classes incl. 0, tag length +-1, block boundaries, 65535, 65536, 70000 x 4 KEMs x KDF/AEAD (rotating "
                       "in quick); distinct = distinct (call, algorithm, argument lengths, context state)")


# ------------------------------------------------------------------------------------------- C16
SUITE_SIZES = {1: (16, 12), 2: (32, 12), 3: (32, 12), 65535: (0, 128)}
NH = {1: 32, 2: 48, 3: 64}
NSK = {32: 32, 16: 32, 17: 48, 18: 66}


def validate_trace(chk, module, cfgname, env_name, events, name):
    """impl -> spec: write the abstracted event log, let TLC decide whether the trace specification accepts it.
    Returns None if accepted, else the record TLC printed for the first event no action explains."""
    import tempfile
    from . import tlcrun
    from .common import SPEC
    path = os.path.join(engine.outdir(chk.prop), name + ".ndjson")
    with open(path, "w") as f:
        for e in events:
            f.write(json.dumps(e) + "\n")
    res = tlcrun.run(module, os.path.join(SPEC, cfgname), workers=1, timeout=1800, env={env_name: path},
                     java_opts=["-Dtlc2.tool.queue.IStateQueue=StateDeque"])
    chk.add_tlc(res.stats, name)
    rejected = [v for v in res.printed if isinstance(v, dict) and "rejected_at" in v]
    if rejected:
        return rejected[0]
    if res.violated:
        if (res.violated or "").startswith("Postcondition"):
            return {"rejected_at": None, "event": None, "tlc": res.raw_tail[-800:]}
        raise ToolError("trace validation run failed: %s\n%s" % (res.violated, res.raw_tail))
    return None


@prop("C16")
def c16(chk, tier):
    thorough = tier == "thorough"
    chk.assumptions += [
        "trace validation: the executor's event log (ledger deltas from the cfg(hpke_verif) drop ledger, memory scans of "
        "the dropped object's allocation before and after ptr::drop_in_place) is checked by TLC against "
        "spec/HpkeLifecycle.tla; only lower bounds on clean drops and 'no dirty drop' are demanded",
        "memory scans look for every 8-byte window of the base nonce and exporter secret (raw contexts: chosen by the "
        "driver) and of the KEM shared secret (read from SharedSecret.0 before the drop); a scan counts only if the "
        "secret WAS found before the drop; nothing is claimed about copies left by moves or the cipher state",
        "the ledger is process-global: the script is sequential, so each delta belongs to one call"]
    from .execproc import run_script
    rnd = random.Random(seed())
    cmds = []
    meta = []

    def add(cmd, ev, ctx=None):
        cmds.append(cmd)
        meta.append((ev, ctx))

    def rb(n):
        return bytes(rnd.getrandbits(8) for _ in range(n)).hex()
    suites = [(k, d, a) for k in KEMS for d in (1, 2, 3) for a in (1, 2, 3, 65535)]
    if not thorough:
        suites = [s for i, s in enumerate(suites) if (i + seed()) % 5 == 0] + [(32, 1, 65535), (18, 3, 2)]
    nctx = 0
    for su in suites:
        kem, kdf, aead = su
        nk, nn = SUITE_SIZES[aead]
        # hook-built contexts of both roles: secrets known by construction
        for role in ("S", "R"):
            nctx += 1
            c = "c%d" % nctx
            key, bn, ex = rb(nk), rb(nn), rb(NH[kdf])
            add({"op": "raw_ctx", "suite": list(su), "role": role, "key": key, "base_nonce": bn, "exporter_secret": ex, "ctx": c}, "raw_ctx", c)
            # (export-only suites too: their seal / open PANIC, and what is dropped while the panic unwinds is held to
            # the same standard)
            if role == "S":
                add({"op": "seal", "ctx": c, "pt": rb(20), "aad": rb(3), "form": "alloc" if nctx % 4 else "detached"}, "seal", c)
            if role == "R":
                add({"op": "open", "ctx": c, "ct": rb(40), "aad": "", "form": "alloc"}, "open", c)
            add({"op": "export", "ctx": c, "exporter_ctx": rb(4), "len": 32}, "export", c)
            # about every third context is dropped while its owner's thread unwinds from a panic
            add(dict({"op": "drop", "ctx": c, "scan": [bn, ex]}, **({"unwinding": True} if len(cmds) % 3 == 0 else {})), "drop", c)
        # real setups, all four modes, both roles
        ikm_r, ikm_s = rb(NSK[kem]), rb(NSK[kem])
        i_r = len(cmds)
        add({"op": "derive_keypair", "kem": kem, "ikm": ikm_r}, "other")
        i_s = len(cmds)
        add({"op": "derive_keypair", "kem": kem, "ikm": ikm_s}, "other")
        for mode in (0, 1, 2, 3):
            nctx += 1
            cs, cr = "s%d" % nctx, "r%d" % nctx
            extra = {}
            if mode in (1, 3):
                extra.update(psk=rb(32), psk_id=rb(8))
            s_cmd = {"op": "setup_s", "suite": list(su), "mode": mode, "pk_r": {"ref": i_r, "field": "pk"}, "info": rb(5),
                     "rng": rb(NSK[kem]), "ctx": cs}
            r_cmd = {"op": "setup_r", "suite": list(su), "mode": mode, "sk_r": {"ref": i_r, "field": "sk"}, "info": s_cmd["info"], "ctx": cr}
            s_cmd.update(extra)
            r_cmd.update(extra)
            if mode in (2, 3):
                s_cmd.update(sk_s={"ref": i_s, "field": "sk"}, pk_s={"ref": i_s, "field": "pk"})
                r_cmd.update(pk_s={"ref": i_s, "field": "pk"})
            i_setup = len(cmds)
            add(s_cmd, "setup_s", cs)
            r_cmd["enc"] = {"ref": i_setup, "field": "enc"}
            add(r_cmd, "setup_r", cr)
            if aead != 65535:
                i_seal = len(cmds)
                add({"op": "seal", "ctx": cs, "pt": rb(33), "aad": rb(2), "form": "detached"}, "seal", cs)
                add({"op": "open", "ctx": cr, "ct": {"ref": i_seal, "field": "ct"}, "tag": {"ref": i_seal, "field": "tag"},
                     "aad": cmds[i_seal]["aad"], "form": "detached"}, "open", cr)
            add({"op": "export", "ctx": cr, "exporter_ctx": "", "len": 16}, "export", cr)
            add({"op": "drop", "ctx": cs, "scan": []}, "drop", cs)
            add({"op": "drop", "ctx": cr, "scan": []}, "drop", cr)
            # the KEM shared secret on its own
            d_cmd = {"op": "drop_shared_secret", "kem": kem, "sk_r": {"ref": i_r, "field": "sk"}, "enc": {"ref": i_setup, "field": "enc"}}
            if mode in (2, 3):
                d_cmd["pk_s"] = {"ref": i_s, "field": "pk"}
            add(d_cmd, "drop_shared_secret")
    # many more KEM shared secrets (a wipe that depends on the VALUE of the secret needs many values to show)
    for kem in (32, 16):
        i_r = len(cmds)
        add({"op": "derive_keypair", "kem": kem, "ikm": rb(NSK[kem])}, "other")
        for _ in range((4000 if thorough else 1200) if kem == 32 else (600 if thorough else 150)):
            i_e = len(cmds)
            add({"op": "encap", "kem": kem, "pk_r": {"ref": i_r, "field": "pk"}, "rng": rb(NSK[kem])}, "other")
            add({"op": "drop_shared_secret", "kem": kem, "sk_r": {"ref": i_r, "field": "sk"}, "enc": {"ref": i_e, "field": "enc"}},
                "drop_shared_secret")
    chk.notes["contexts_dropped_while_unwinding"] = sum(1 for c in cmds if c.get("unwinding"))
    evs = run_script(cmds)
    # the refinement mapping: purely syntactic (ledger deltas, scan booleans, result kind)
    trace = []
    prev = [[0, 0]] * 4
    meaningful = 0
    for (evname, ctx), cmd, ev in zip(meta, cmds, evs):
        if "tool_error" in ev:
            raise ToolError("executor: %s on %s" % (ev["tool_error"], json.dumps(cmd)[:200]))
        led = ev["ledger"]
        delta = [[led[k][0] - prev[k][0], led[k][1] - prev[k][1]] for k in range(4)]
        prev = led
        kind = "ok" if "ok" in ev else "err" if "err" in ev else "panic"
        scan = []
        if evname == "drop" and "ok" in ev and "found_before" in ev["ok"]:
            scan = [{"before": b, "after": a} for b, a in zip(ev["ok"]["found_before"], ev["ok"]["found_after"])]
        if evname == "drop_shared_secret" and "ok" in ev:
            scan = [{"before": ev["ok"]["found_before"], "after": ev["ok"]["found_after"]}]
        meaningful += sum(1 for s in scan if s["before"])
        trace.append({"ev": evname, "ctx": ctx or "", "result": kind, "delta": delta, "scan": scan, "i": ev["i"]})
        chk.case((evname, tuple(cmd.get("suite", [cmd.get("kem")])), cmd.get("mode"), cmd.get("role")))
    if meaningful == 0:
        raise ToolError("no memory scan found its secret before the drop: the observation is vacuous")
    rej = validate_trace(chk, "HpkeLifecycle", "HpkeLifecycle.cfg", "LIFE_TRACE", trace, "life")
    chk.notes["events"] = len(trace)
    chk.notes["scans_that_found_the_secret_before_the_drop"] = meaningful
    chk.sample({"trace_excerpt": trace[:6]})
    if rej is not None:
        at = rej.get("rejected_at")
        bad = rej.get("event") or {}
        idx = bad.get("i") if isinstance(bad, dict) else None
        what = "life-cycle trace rejected at event %s: %s" % (at, json.dumps(bad)[:400])
        chk.violation(what, {"kind": "trace", "module": "HpkeLifecycle", "script": cmds[:(idx or 0) + 1],
                             "rejected": rej, "fingerprint": "life-%s-%s" % (bad.get("ev"), json.dumps(bad.get("delta")))})
    else:
        chk.trace_ok()
    chk.cov["rule"] = ("one executor run over (suites x roles) hook-built contexts with known secrets and (suites x 4 modes x both "
                       "roles) real setups, each used and dropped, plus the KEM shared secret of every setup; the whole log is one "
                       "trace validated by TLC; distinct = distinct (event kind, suite, mode, role)")


# ------------------------------------------------------------------------------------------- C17
@prop("C17", level="exploration")
def c17(chk, tier):
    thorough = tier == "thorough"
    from . import features, tlcrun
    from .common import SPEC
    chk.assumptions += [
        "the expected surface of each feature subset comes from spec/HpkeFeatures.tla (TLC enumerates the 64 subsets x "
        "guard); a subset is 'replayed' by building: cargo check of the crate, a generated probe crate that names every "
        "expected item (must compile) and each absent one (must not), cargo test of the crate, and a scripted scenario per "
        "enabled KEM whose outputs must equal those under the full feature set",
        "kat_tests::kat_test is skipped: it parses test-vectors-5f503c5.json, which is EMPTY in the pinned tree (a "
        "property of the snapshot, not of any feature combination); its intent is covered by C02/C03",
        "quick tier: 12 subsets (rotating with the seed); thorough: all 64, guard on and off"]
    res = tlcrun.run("HpkeFeatures", os.path.join(SPEC, "HpkeFeatures.cfg"), workers=1, timeout=300)
    chk.add_tlc(res.stats, "features")
    apis = [a for a in res.printed if isinstance(a, dict) and "features" in a]
    if len(apis) != 128:
        raise ToolError("expected 128 (subset, guard) records, got %d" % len(apis))
    by = {(frozenset(a["features"]), a["guard"]): a for a in apis}
    full = frozenset(features.ALL_FEATURES)
    if thorough:
        todo = [(f, g) for (f, g) in by]
    else:
        singles = [frozenset([x]) for x in features.ALL_FEATURES]
        base = [frozenset(), full, frozenset(["alloc", "p256", "x25519"]), frozenset(["std", "p384"]),
                frozenset(["p256", "p384"]), frozenset(["x25519", "p521"])] + singles
        allsets = sorted((f for (f, g) in by if not g), key=lambda s: (len(s), sorted(s)))
        extra = [allsets[(seed() * 7 + k * 13) % 64] for k in range(2)]
        todo = [(f, False) for f in dict.fromkeys(base + extra)] + [(full, True), (frozenset(["p521"]), True)]
    b = features.Builder("C17")
    try:
        ref = features.check_subset(chk, b, by[(full, False)], tests=True)
        if ref is None:
            ref = []
        for f, g in sorted(todo, key=lambda x: (x[1], len(x[0]), sorted(x[0]))):
            if (f, g) == (full, False):
                continue
            features.check_subset(chk, b, by[(f, g)], tests=(thorough or not g), digest_ref=ref)
            chk.trace_ok()
        # examples and the bench target under their required features
        for cmd in (["cargo", "check", "--offline", "--example", "client_server", "--features", "x25519"],
                    ["cargo", "check", "--offline", "--example", "agility", "--features", "p256,p384,p521,x25519"],
                    ["cargo", "check", "--offline", "--benches", "--all-features"]):
            rc, out = features.run(cmd, features.REPO, b.flags(False))
            chk.case(("target", " ".join(cmd[3:])))
            if rc != 0:
                chk.violation("bundled target does not build: " + " ".join(cmd), {"kind": "build", "command": " ".join(cmd),
                              "output": out[-3000:], "fingerprint": "c17-target-" + cmd[4]})
        chk.sample({"subset": sorted(full), "guard": False, "scenario_outputs": ref[:2]})
    finally:
        b.cleanup()
    chk.cov["exhaustive"] = thorough
    chk.cov["rule"] = ("feature subsets (x guard) enumerated by TLC from spec/HpkeFeatures.tla; per subset: library check, "
                       "positive and negative surface probes, the crate's tests, scripted scenario digest vs the full feature "
                       "set; distinct = distinct (kind of build, subset, guard, item)")


# ------------------------------------------------------------------------------------------- C18
SENDSYNC_SRC = '''
#![allow(unused)]
use hpke::{aead::*, kdf::*, kem::*, Kem as KemTrait};
fn ss<T: Send + Sync>() {}
fn suite<A: Aead, K: Kdf, M: KemTrait>() where
    AeadCtxS<A, K, M>: Send + Sync, AeadCtxR<A, K, M>: Send + Sync {
    ss::<AeadCtxS<A, K, M>>(); ss::<AeadCtxR<A, K, M>>(); ss::<AeadTag<A>>();
}
fn kem<M: KemTrait>() where M::PublicKey: Send + Sync, M::PrivateKey: Send + Sync, M::EncappedKey: Send + Sync {
    ss::<M::PublicKey>(); ss::<M::PrivateKey>(); ss::<M::EncappedKey>();
}
pub fn all() {
BODY
    ss::<hpke::HpkeError>(); ss::<hpke::PskBundle<'static>>();
}
'''


def c18_static(chk):
    """Send + Sync of every public type, as a compile-time probe - under the full feature set, the default one (no std:
    what is thread-safe must not depend on std being there) and a build with neither alloc nor std"""
    from . import features
    kdfs = ["HkdfSha256", "HkdfSha384", "HkdfSha512"]
    aeads = ["AesGcm128", "AesGcm256", "ChaCha20Poly1305", "ExportOnlyAead"]
    b = features.Builder("C18")
    try:
        for feats in (features.ALL_FEATURES, ["alloc", "x25519", "p256"], ["x25519"]):
            kems = [features.KEM_TYPE[k] for k, f in ((32, "x25519"), (16, "p256"), (17, "p384"), (18, "p521")) if f in feats]
            body = "".join("    kem::<%s>(); ss::<hpke::OpModeR<'static, %s>>(); ss::<hpke::OpModeS<'static, %s>>();\n" % (m, m, m) for m in kems)
            body += "".join("    suite::<%s, %s, %s>();\n" % (a, k, m) for a in aeads for k in kdfs for m in kems)
            d = b.crate("sendsync_" + "_".join(feats), feats, {"lib.rs": SENDSYNC_SRC.replace("BODY", body)})
            cmd = ["cargo", "check", "--offline", "--lib"]
            rc, out = features.run(cmd, d, b.flags(False))
            chk.case(("static", "send+sync", tuple(feats), len(kems) * 12 * 3 + len(kems) * 5 + 2))
            if rc != 0:
                chk.violation("a public type is not Send + Sync with features %s (compile-time probe fails): " % ",".join(feats)
                              + " / ".join(l for l in out.split("\n") if l.startswith("error"))[:300],
                              {"kind": "build", "command": " ".join(cmd), "source": "probe crate asserting Send + Sync for every "
                               "context, tag, key, encapsulated key, mode and error type", "features": feats, "output": out[-3000:],
                               "fingerprint": "c18-sendsync"})
                return False
        return True
    finally:
        b.cleanup()


@prop("C18")
def c18(chk, tier):
    thorough = tier == "thorough"
    chk.assumptions += [
        "the specification has no thread and no global state: per-session predictions are those of the session alone; "
        "TLC enumerates interleavings and thread placements of three sessions (same parameters: other RNG script / same "
        "RNG script) and checks the frame condition and determinism on the model",
        "schedules are executed on persistent worker threads (contexts are moved between threads); then every context's "
        "calls are re-run truly concurrently (one thread per context, barrier start) with the concrete arguments of the "
        "sequential run and must return identical results; concurrent shared-reference exports must agree",
        "Send/Sync of the public types is a compile-time probe; a library that fails it also fails to build the executor"]
    if not c18_static(chk):
        return
    # the same property in builds WITHOUT alloc/std (the executor needs alloc; code behind cfg(not(alloc)) is only here)
    from . import features
    b = features.Builder("C18")
    try:
        subsets = [["p256"], ["x25519"], ["x25519", "p384"], ["p521"]] if tier == "thorough" else [rot([["p256"], ["x25519"]], 0)]
        for fs in subsets:
            features.concurrency_probe(chk, b, fs)
    finally:
        b.cleanup()
    from .execproc import Executor
    combos = [(32, 1, 1, 3), (16, 1, 3, 2), (17, 2, 2, 3), (18, 3, 1, 1), (32, 3, 65535, 2), (16, 2, 2, 0)]
    if not thorough:
        combos = [combos[0], combos[1 + seed() % 5]]
    ses = Session(chk)
    rnd = random.Random(seed())
    try:
        for kem, kdf, aead, mode in combos:
            over = dict(KemC=str(kem), KdfC=str(kdf), AeadC=str(aead), ModeC=str(mode), RecordHist="FALSE", HistLen="0",
                        Threads="{1}")
            cfg = engine.cfg_for(chk, "mc_par_%d_%d" % (kem, aead), "MC_Par.cfg", over,
                                 invariants=["Determinism", "AcceptsOnlySealed"], properties=["Frame"],
                                 extra=[])
            # exhaustive: hide thread placement and history from the fingerprint
            txt = open(cfg).read().replace("VIEW ParView", "VIEW CoreView")
            open(cfg, "w").write(txt)
            from . import tlcrun
            res = tlcrun.run("MC_Par", cfg, workers=8, timeout=3600)
            if res.violated:
                raise ToolError("MC_Par violates %s\n%s" % (res.violated, res.raw_tail))
            chk.add_tlc(res.stats, "mc_par_%d_%d_%d_%d" % (kem, kdf, aead, mode))
            # schedules: random walks of the model, every call placed on one of 3 threads
            nwalk = [0]

            def onb(beh):
                if rnd.random() > (0.25 if thorough else 0.06):
                    return
                steps = steps_of(beh)
                npro = len(steps) - len(beh["hist"])
                for st, t in zip(steps[npro:], beh["threads"]):
                    st["thread"] = t
                ok = ses.replay(steps, label="schedule kem=%d aead=%d mode=%d" % (kem, aead, mode), sample=(nwalk[0] < 1))
                nwalk[0] += 1
                chk.case(("sched", kem, kdf, aead, mode, json.dumps([(s["op"], s.get("c"), s.get("thread")) for s in steps])))
                if ok:
                    c18_concurrent(chk, ses, steps, npro)
            generate(chk, "MC_Par", "MC_Par.cfg", "gen_par_%d_%d" % (kem, aead),
                     # (an export-only suite has no successful seal / open: shorter histories, or none would be printed)
                     dict(over, RecordHist="TRUE", HistLen="11" if aead != 65535 else "7", Threads="{1, 2, 3}", MaxSeals="3", MaxOpens="3"),
                     invariants=["PrintHist"], on_value=onb, simulate=60 if thorough else 25, depth=12 if aead != 65535 else 8,
                     tlc_seed=seed())
            if nwalk[0] == 0:
                raise ToolError("no schedule generated")
        traces(chk, "session", 8 if thorough else 2, "random sessions on random threads", nsessions=6, nsteps=30, threads=4)
        c18_stress(chk, ses, 0)
        c18_stress(chk, ses, 20000 if thorough else 2500)
        for nsuites in (2, 5, 12):
            if not c18_stress(chk, ses, 100000 if thorough else 10000, hammer=nsuites):
                break
    finally:
        ses.close()
    chk.cov["rule"] = ("interleavings and thread placements (3 threads) of three sessions with equal parameters (other / same RNG "
                       "script) over setup, seal, open of every sender's messages by every receiver, export; each schedule run "
                       "sequentially on worker threads and again with one truly concurrent thread per context, plus concurrent "
                       "shared-reference exports; distinct = distinct (suite, mode, schedule with thread placement)")


# (suite, mode) per thread: every pair of suite components is shared by two entries that differ in the third (a cache
# keyed by part of the suite id), export-only suites of one KEM with different KDFs, all four modes
C18_STRESS_SUITES = [((32, 1, 1), 0), ((32, 1, 2), 0), ((32, 2, 1), 0), ((16, 1, 1), 0), ((16, 1, 3), 2), ((16, 2, 3), 2),
                     ((17, 2, 2), 1), ((17, 2, 3), 3), ((18, 3, 3), 2), ((18, 3, 65535), 0), ((32, 3, 65535), 0),
                     ((32, 1, 65535), 0), ((16, 3, 1), 3), ((17, 1, 1), 2), ((32, 2, 3), 1), ((18, 1, 2), 2)]


def c18_stress(chk, ses, reps, nthreads=16, hammer=0, ex=None):
    """Determinism under real concurrency ACROSS suites and modes: one session script per thread (setup of both sides
    from a scripted RNG, seal, open, exports; every mode on at least two different suites), each thread repeating its
    script `reps` times after a common barrier.  The specification's prediction for a call is a function of its
    arguments alone (MC_Par: Determinism, Frame), so every repetition on every thread must return exactly what the
    same script returned when it ran alone, sequentially."""
    import hashlib
    ex = ex or ses.ex
    hx = lambda tag, n: hashlib.shake_128(("c18stress-%d-%s" % (seed(), tag)).encode()).hexdigest(n)
    lists, base = [], []
    for t in range(nthreads):
        (kem, kdf, aead), mode = C18_STRESS_SUITES[t % len(C18_STRESS_SUITES)]
        if hammer:
            # nothing but setups, as fast as they go: the cheapest KEM, every thread another (KDF, AEAD), no PSK
            # (`hammer` distinct suites: with few, several threads share each suite - a value cached for one suite is
            # re-used often and evicted often; with many, everybody evicts everybody)
            u = t % hammer
            kem, kdf, aead, mode = 32, 1 + u % 3, (1, 2, 3, 65535)[(u // 3) % 4], (0, 2)[(t // hammer) % 2]
        nsk = {32: 32, 16: 32, 17: 48, 18: 66}[kem]
        # every thread its own recipient; ONE sender identity per KEM (something remembered per sender must not leak
        # from one recipient's session into another's)
        kp = [ex.call({"op": "derive_keypair", "kem": kem, "ikm": hx(("ikm%d-r" % t) if i == 0 else ("ikm-s-%d" % kem), nsk)})
              for i in range(2)]
        if not all("ok" in k for k in kp):
            raise ToolError("stress: derive_keypair failed: %s" % json.dumps(kp)[:300])
        common = {"suite": [kem, kdf, aead], "mode": mode, "info": hx("info%d" % t, 9) if mode else ""}
        if mode in (1, 3):
            common.update(psk=hx("psk%d" % t, 32), psk_id=hx("pskid%d" % t, 5))
        snd = dict(common, op="setup_s", ctx="x%d_s" % t, rng=hx("rng%d" % t, nsk + 70), pk_r=kp[0]["ok"]["pk"])
        rcv = dict(common, op="setup_r", ctx="x%d_r" % t, sk_r=kp[0]["ok"]["sk"])
        if mode in (2, 3):
            snd.update(sk_s=kp[1]["ok"]["sk"], pk_s=kp[1]["ok"]["pk"])
            rcv.update(pk_s=kp[1]["ok"]["pk"])
        def session(exq):
            """the thread's session on executor exq: (commands, events, first failing (command, event) or None)"""
            cmds, evs = [], []

            class Failed(Exception):
                pass

            def do(cmd):
                ev = exq.call(cmd)
                cmds.append(cmd)
                evs.append(ev)
                if "ok" not in ev:
                    raise Failed()
                return ev["ok"]
            try:
                enc = do(snd)["enc"]
                do(dict(rcv, enc=enc))
                if aead != 65535 and not hammer:
                    for k in range(2):
                        ct = do({"op": "seal", "ctx": snd["ctx"], "form": "alloc", "pt": hx("pt%d-%d" % (t, k), 21), "aad": hx("aad%d" % t, 3)})["ct"]
                        do({"op": "open", "ctx": rcv["ctx"], "form": "alloc", "ct": ct, "aad": hx("aad%d" % t, 3)})
                for c in (snd["ctx"], rcv["ctx"]):
                    do({"op": "export", "ctx": c, "len": 32, "exporter_ctx": hx("ectx", 4)})
            except Failed:
                return cmds, evs, (cmds[-1], evs[-1])
            return cmds, evs, None
        cmds, evs, fail = session(ex)
        if fail:
            # a session that must work fails HERE: does it work in a process that has done nothing else?
            from .execproc import Executor
            with Executor() as ex2:
                _, _, fail2 = session(ex2)
            if fail2 is None:
                chk.violation("%s (suite %s, mode %d) fails after this process's earlier sessions (%s) but the same session works "
                              "in a fresh process" % (fail[0]["op"], [kem, kdf, aead], mode,
                                                      json.dumps(fail[1].get("err") or fail[1].get("panic"))[:120]),
                              {"kind": "history", "history": ex.history() or "too long", "event": fail[1],
                               "mismatch": "fails only with history", "fingerprint": "c18-history-" + fail[0]["op"]})
                raise EnoughViolations()
            raise ToolError("stress: sequential baseline call failed: %s -> %s" % (json.dumps(fail[0])[:200], json.dumps(fail[1])[:200]))
        lists.append(cmds)
        base.append(evs)
    strip = lambda e: {k: e.get(k) for k in ("ok", "err", "panic", "seq", "ovf")}
    if reps == 0:
        # history independence: the same scripts, in the opposite order, in a process that has done nothing else
        from .execproc import Executor
        with Executor() as ex2:
            for t in reversed(range(nthreads)):
                for j, cmd in enumerate(lists[t]):
                    ev = ex2.call(cmd)
                    if strip(ev) != strip(base[t][j]):
                        chk.violation("the result of %s (suite %s, mode %d) depends on which calls the process made before it: "
                                      "it differs between two processes that run the same session scripts in opposite orders"
                                      % (cmd["op"], lists[t][0]["suite"], lists[t][0]["mode"]),
                                      {"kind": "order", "scripts": lists, "script": t, "call": j, "event_forward": base[t][j],
                                       "event_backward": ev, "fingerprint": "c18-order-" + cmd["op"]})
                        return False
        chk.case(("order", nthreads))
        chk.trace_ok()
        # many contexts in between: a session, 2^16 - 1 (then 2^16 - 2) contexts that come and go, the next session -
        # whatever is numbered per context wraps around; the sessions after the crowd must answer as they do alone
        with Executor() as ex3:
            hist = []

            def run(cmd):
                hist.append(cmd)
                return ex3.call(cmd)
            order3 = [0, 1, 2]
            for k, t in enumerate(order3):
                if k:
                    fill = dict(next(c for c in lists[0] if c["op"] == "setup_r"), ctx="crowd")
                    ev = run({"op": "par", "threads": [[fill]], "reps": 65536 - k})
                    if "ok" not in ev or any("diverged" in e for e in ev["ok"]["results"][0]):
                        raise ToolError("crowd of contexts failed: %s" % json.dumps(ev)[:300])
                for j, cmd in enumerate(lists[t]):
                    ev = run(cmd)
                    if strip(ev) != strip(base[t][j]):
                        chk.violation("the result of %s (suite %s, mode %d) changes after %d other contexts were created and "
                                      "dropped in the process" % (cmd["op"], lists[t][0]["suite"], lists[t][0]["mode"], 65536 - k),
                                      {"kind": "history", "history": hist, "event": ev, "mismatch": "differs from the same call made alone",
                                       "fingerprint": "c18-crowd-" + cmd["op"]})
                        return False
        chk.case(("crowd", 65535, 65534))
        chk.trace_ok()
        return True
    nl = len(lists)
    twin = lambda cmds: [dict(c, ctx=c["ctx"].replace("x", "y", 1)) for c in cmds]

    def run_par(exq, reps_, cold, order=tuple(range(nl))):
        # (cold: every script on TWO threads, so that also two first uses of the same suite coincide)
        tl = [lists[t] for t in order] + ([twin(lists[t]) for t in order] if cold else [])
        out = exq.call({"op": "par", "threads": tl, "reps": reps_})
        if "ok" not in out:
            raise ToolError("par (stress) failed: %s" % json.dumps(out)[:300])
        for t2, res in enumerate(out["ok"]["results"]):
            t = order[t2 % len(order)]
            div = res[-1].get("diverged") if res and "diverged" in res[-1] else None
            first = res[:len(lists[t])]
            bad = next((j for j, (a, b) in enumerate(zip(first, base[t])) if strip(a) != strip(b)), None)
            if bad is None and div is None:
                continue
            j = bad if bad is not None else div["j"]
            got = first[bad] if bad is not None else div["event"]
            chk.violation("concurrent sessions of different suites%s: thread %d (suite %s, mode %d) call %s returns something "
                          "else than the same call with the same arguments made alone (repetition %s)"
                          % (" as the FIRST calls of a process" if cold else "", t, lists[t][0]["suite"], lists[t][0]["mode"],
                             lists[t][j]["op"], 0 if bad is not None else div["rep"]),
                          {"kind": "par_stress", "threads": tl, "reps": reps_, "thread": t2, "call": j, "cold": cold,
                           "concurrent_event": got, "sequential_event": base[t][j], "fingerprint": "c18-stress-" + lists[t][j]["op"]})
            return False
        return True
    if not hammer:
        # cold start: the concurrent calls are the first thing a process does (anything initialised lazily, on first
        # use, is initialised by several threads at once); a new process each time
        from .execproc import Executor
        ncold = max(4, min(24, reps // 400))
        lazy = tuple(t for t in range(nl) if not lists[t][0]["info"] and "psk" not in lists[t][0])    # the all-default sessions
        for k in range(ncold):
            with Executor() as cold:
                # alternately: all scripts twice (32 threads), and only the sessions with empty info and no PSK twice
                # (few enough threads to really start together)
                if not run_par(cold, 2, True, order=lazy if (k % 2 and lazy) else tuple(range(nl))):
                    return False
        chk.case(("coldstart", nthreads, ncold))
    if not run_par(ex, reps, False):
        return False
    chk.case(("stress", nthreads, reps, hammer))
    for cmds in lists:
        for c in {c["ctx"] for c in cmds}:
            ex.call({"op": "drop", "ctx": c})
    chk.trace_ok()
    return True


def c18_concurrent(chk, ses, steps, npro):
    """re-run the calls of the schedule just replayed with one concurrent thread per context and the same concrete
    arguments; every result must equal the sequential one"""
    seq = ses.last_trace
    if not seq:
        return
    per_ctx = {}
    order = []
    pfx = "p%d_" % ses.n
    for (cmd, ev), st in zip(seq[npro:], steps[npro:]):
        c = cmd.get("ctx")
        if not c:
            continue
        cmd2 = {k: v for k, v in cmd.items() if k != "thread"}
        cmd2["ctx"] = pfx + c
        per_ctx.setdefault(c, []).append((cmd2, ev))
        if c not in order:
            order.append(c)
    if len(per_ctx) < 2:
        return
    out = ses.ex.call({"op": "par", "threads": [[c for c, _ in per_ctx[x]] for x in order]})
    if "ok" not in out:
        raise ToolError("par failed: %s" % json.dumps(out)[:300])
    for x, res in zip(order, out["ok"]["results"]):
        for (cmd2, ev), got in zip(per_ctx[x], res):
            a = {k: ev.get(k) for k in ("ok", "err", "panic", "seq", "ovf")}
            b = {k: got.get(k) for k in ("ok", "err", "panic", "seq", "ovf")}
            if a != b:
                chk.violation("concurrent execution of context %s gives a different result for %s than sequential execution"
                              % (x, cmd2["op"]),
                              {"kind": "par", "sequential": [{"cmd": c, "event": e} for c, e in seq],
                               "concurrent_cmd": cmd2, "concurrent_event": got, "sequential_event": ev,
                               "fingerprint": "c18-par-" + cmd2["op"]})
                return
    # concurrent shared-reference exports from one context
    first = order[0]
    pe = ses.ex.call({"op": "par_export", "ctx": pfx + first, "threads": 4, "exporter_ctx": "0102", "len": 32, "reps": 20})
    one = ses.ex.call({"op": "export", "ctx": pfx + first, "exporter_ctx": "0102", "len": 32})
    if "ok" in pe and "ok" in one and pe["ok"]["outs"] != [one["ok"]["out"]]:
        chk.violation("concurrent exports from one context disagree", {"kind": "par_export", "outs": pe["ok"]["outs"],
                      "sequential": one["ok"]["out"], "fingerprint": "c18-parexport"})
    for x in order:
        ses.ex.call({"op": "drop", "ctx": pfx + x})
    chk.trace_ok()
