"""The executor process: builds /verif/executor against /repo's working tree and talks NDJSON to it."""
import json
import os
import subprocess
import threading

from .common import VERIF, ToolError, log

EXEC_DIR = os.path.join(VERIF, "executor")
_built = set()


def bin_of(profile):
    return os.path.join(EXEC_DIR, "target", profile, "hpke-exec")


BIN = bin_of("release")


def build(force=False, profile="release"):
    """(Re)build the executor; cargo's own change detection picks up edits under /repo.  Profile "plain" is the same
    program without debug assertions and overflow checks (see executor/Cargo.toml)."""
    if profile in _built and not force:
        return
    env = dict(os.environ, CARGO_NET_OFFLINE="true")
    p = subprocess.run(["cargo", "build", "--profile", profile, "--offline"], cwd=EXEC_DIR, env=env,
                       stdout=subprocess.PIPE, stderr=subprocess.STDOUT, text=True)
    if p.returncode != 0:
        raise ToolError("executor does not build against the current tree:\n" + p.stdout[-4000:])
    _built.add(profile)


class Executor:
    """one hpke-exec process, used interactively (one command -> one event)"""

    def __init__(self, profile="release"):
        build(profile=profile)
        self.profile = profile
        self.p = subprocess.Popen([bin_of(profile)], stdin=subprocess.PIPE, stdout=subprocess.PIPE, text=True, bufsize=1,
                                  env=dict(os.environ, HPKE_EXEC_FLUSH="1"))
        self.n = 0
        # every command of this process, on disk: lets a mismatch that depends on the process's HISTORY be re-created
        import tempfile
        self.cmdlog = tempfile.NamedTemporaryFile("w+", prefix="hpke-exec-log-", suffix=".ndjson", delete=True)
        self.logged_bytes = 0
        self.log_complete = True

    def call(self, cmd):
        line = json.dumps(cmd, separators=(",", ":"))
        try:
            self.p.stdin.write(line + "\n")
            self.p.stdin.flush()
            out = self.p.stdout.readline()
        except BrokenPipeError:
            out = ""
        if not out:
            rc = self.p.poll()
            raise ToolError("executor died (rc=%s) on command %s" % (rc, line[:500]))
        ev = json.loads(out)
        self.n += 1
        if self.log_complete:
            if self.logged_bytes < 300 * 1024 * 1024:
                self.cmdlog.write(line + "\n")
                self.logged_bytes += len(line) + 1
            else:
                self.log_complete = False
        return ev

    def history(self):
        """all commands issued so far (None if the log was cut off)"""
        if not self.log_complete:
            return None
        self.cmdlog.flush()
        with open(self.cmdlog.name) as f:
            return [json.loads(l) for l in f if l.strip()]

    def close(self):
        try:
            self.p.stdin.close()
            self.p.wait(timeout=10)
        except Exception:
            self.p.kill()
        try:
            self.cmdlog.close()
        except Exception:
            pass

    def __enter__(self):
        return self

    def __exit__(self, *a):
        self.close()


def run_script(cmds, timeout=600):
    """batch mode: run a whole script, return the list of events"""
    build()
    inp = "\n".join(json.dumps(c, separators=(",", ":")) for c in cmds) + "\n"
    p = subprocess.run([BIN], input=inp, stdout=subprocess.PIPE, text=True, timeout=timeout)
    evs = [json.loads(l) for l in p.stdout.split("\n") if l.strip()]
    if len(evs) != len(cmds):
        raise ToolError("executor returned %d events for %d commands (rc=%s)" % (len(evs), len(cmds), p.returncode))
    return evs


def result_kind(ev):
    if "ok" in ev:
        return "ok"
    if "err" in ev:
        return "err"
    if "panic" in ev:
        return "panic"
    return "tool_error"
