"""Shared plumbing of the checks: paths, seeds, evidence files, violation reports."""
import json
import os
import sys
import time

VERIF = os.path.dirname(os.path.dirname(os.path.abspath(__file__)))
SPEC = os.path.join(VERIF, "spec")
OUT = os.path.join(VERIF, "out")
EVIDENCE = os.path.join(VERIF, "evidence")
REPO = os.environ.get("VERIF_REPO", "/repo")
NCPU = os.cpu_count() or 4


def seed():
    try:
        return int(os.environ.get("VERIF_SEED", "1"))
    except ValueError:
        return 1


def outdir(prop):
    d = os.path.join(OUT, prop)
    os.makedirs(d, exist_ok=True)
    return d


class ToolError(Exception):
    """the machinery itself failed (exit code 2); never a verdict about the code under test"""


class EnoughViolations(Exception):
    """raised to stop a check early once several violations are on record"""


MAX_VIOLATIONS = 5


class Check:
    """collects what a check run covered and what it found; writes the evidence file"""

    def __init__(self, prop, tier, level="model_checking"):
        self.prop = prop
        self.tier = tier
        self.level = level
        self.t0 = time.time()
        self.cov = {"states": 0, "transitions": 0, "traces_validated_against_impl": 0, "samples": [],
                    "evaluations": 0, "distinct_nontrivial": 0}
        self.assumptions = []
        self.violations = []        # (description, replay-object)
        self.known = []
        self.notes = {}
        self.distinct = set()
        self.outcomes = {}          # "op/kind[/err]" -> number of generated transitions of that class
        d = outdir(prop)
        for f in os.listdir(d):
            if f.startswith("violation-"):
                os.remove(os.path.join(d, f))

    # ---- coverage accounting ------------------------------------------------------------------
    def add_tlc(self, stats, name):
        self.cov["states"] += stats.get("distinct", 0)
        self.cov["transitions"] += stats.get("generated", 0)
        self.notes.setdefault("tlc_runs", []).append(dict(stats, model=name))

    def case(self, key, nontrivial=True):
        """count one evaluated case; `key` identifies it for the distinct count"""
        self.cov["evaluations"] += 1
        if nontrivial:
            self.distinct.add(key)

    def sample(self, obj, limit=6):
        if len(self.cov["samples"]) < limit:
            self.cov["samples"].append(obj)

    def trace_ok(self, n=1):
        self.cov["traces_validated_against_impl"] += n

    # ---- findings ---------------------------------------------------------------------------------
    def violation(self, what, replay):
        """record a violation; `replay` is a JSON-able object that reproduces it"""
        fp = replay.get("fingerprint") if isinstance(replay, dict) else None
        for k in load_known():
            if k.get("property") == self.prop and k.get("status") == "open" and fp and k.get("fingerprint") == fp:
                if k["fingerprint"] not in [x["fingerprint"] for x in self.known]:
                    self.known.append(k)
                return
        if len(self.violations) >= 20:
            self.violations.append((what, None))
            return
        n = len(self.violations) + 1
        path = os.path.join(outdir(self.prop), "violation-%d.json" % n)
        with open(path, "w") as f:
            json.dump({"property": self.prop, "what": what, "replay": replay}, f, indent=1)
        self.violations.append((what, path))
        if len(self.violations) >= MAX_VIOLATIONS:
            raise EnoughViolations()

    # ---- finish ---------------------------------------------------------------------------------
    def finish(self):
        self.cov["distinct_nontrivial"] = len(self.distinct)
        self.cov.update(self.notes)
        ev = {"property_id": self.prop, "tier": self.tier, "seed": seed(), "level": self.level,
              "coverage": self.cov, "assumptions": self.assumptions,
              "wall_s": round(time.time() - self.t0, 2), "violations": len(self.violations)}
        os.makedirs(EVIDENCE, exist_ok=True)
        with open(os.path.join(EVIDENCE, self.prop + ".json"), "w") as f:
            json.dump(ev, f, indent=1)
        for k in self.known:
            print("KNOWN-FINDING: property=%s %s" % (self.prop, k.get("what", k.get("fingerprint"))))
        if self.violations:
            shown = 0
            for what, path in self.violations:
                if path is None:
                    continue
                print("VIOLATION property=%s replay=%s" % (self.prop, path))
                print("  " + what)
                shown += 1
            return 1
        print("OK property=%s tier=%s states=%d transitions=%d impl_traces=%d cases=%d distinct=%d wall=%.1fs"
              % (self.prop, self.tier, self.cov["states"], self.cov["transitions"],
                 self.cov["traces_validated_against_impl"], self.cov["evaluations"],
                 self.cov["distinct_nontrivial"], time.time() - self.t0))
        return 0


_known = None


def load_known():
    global _known
    if _known is None:
        p = os.path.join(VERIF, "known_findings.json")
        try:
            with open(p) as f:
                _known = json.load(f).get("findings", [])
        except FileNotFoundError:
            _known = []
    return _known


def log(*a):
    print(*a, file=sys.stderr, flush=True)
