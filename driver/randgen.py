"""Random scripts for trace validation (impl -> spec).  Nothing here is derived from the model: a script is a
list of API calls whose byte arguments are PROVENANCE expressions (fresh random bytes, literal bytes, an
output of an earlier call, possibly flipped / cut / concatenated).  Each expression has two renderings:
the executor's ARG syntax and the form HpkeTrace.tla evaluates."""
import random

NSK = {32: 32, 16: 32, 17: 48, 18: 66}
NPK = {32: 32, 16: 65, 17: 97, 18: 133}
NK = {1: 16, 2: 32, 3: 32, 65535: 0}
NN = {1: 12, 2: 12, 3: 12, 65535: 128}
NH = {1: 32, 2: 48, 3: 64}


class E:
    """provenance expression"""

    def __init__(self, kind, *a):
        self.kind, self.a = kind, a

    def length(self, lens):
        k, a = self.kind, self.a
        if k == "lit":
            return len(a[0])
        if k == "fresh":
            return a[1]
        if k == "out":
            return lens[(a[0], a[1])]
        if k == "flip":
            return a[0].length(lens)
        if k == "take":
            return a[1]
        if k == "drop":
            return a[0].length(lens) - a[1]
        if k == "cat":
            return a[0].length(lens) + a[1].length(lens)

    def exec_arg(self, fresh):
        k, a = self.kind, self.a
        if k == "lit":
            return bytes(a[0]).hex()
        if k == "fresh":
            return fresh(a[0], a[1]).hex()
        if k == "out":
            return {"ref": a[0], "field": a[1]}
        inner = a[0].exec_arg(fresh)
        if not isinstance(inner, dict):
            inner = {"hex": inner}
        inner = dict(inner)
        ops = list(inner.get("ops", []))
        if k == "flip":
            ops.append({"flip": a[1]})
        elif k == "take":
            ops.append({"trunc": a[1]})
        elif k == "drop":
            ops.append({"drop_front": a[1]})
        elif k == "cat":
            return {"cat": [a[0].exec_arg(fresh), a[1].exec_arg(fresh)]}
        inner["ops"] = ops
        return inner

    def trace(self):
        k, a = self.kind, self.a
        if k == "lit":
            return ["lit", list(a[0])]
        if k == "fresh":
            return ["fresh", a[0], a[1]]
        if k == "out":
            return ["out", a[0] + 1, a[1]]          # TLA+ sequences are 1-based
        if k == "cat":
            return ["cat", a[0].trace(), a[1].trace()]
        return [k, a[0].trace(), a[1]]


def Lit(b):
    return E("lit", bytes(b))


class Script:
    def __init__(self, seed):
        self.rnd = random.Random(seed)
        self.cmds = []          # dict: op, plain fields, args: {name: E}
        self.nfresh = 0

    def fresh(self, n, tag="f"):
        self.nfresh += 1
        return E("fresh", "%s%d" % (tag, self.nfresh), n)

    def add(self, op, args, **plain):
        self.cmds.append(dict(plain, op=op, args=args))
        return len(self.cmds) - 1

    def rlen(self, big=False):
        r = self.rnd
        x = r.random()
        if x < 0.15:
            return 0
        if x < 0.3:
            return r.choice([1, 15, 16, 17, 31, 32, 33, 63, 64, 65])
        if big and x > 0.97:
            return r.choice([65535, 65536, 70000])
        return r.randrange(1, 200)


def gen_seq_profile(seed, nsteps=400):
    """hook-built contexts sharing key material; random seals, adversarial deliveries, counter jumps, exports"""
    s = Script(seed)
    r = s.rnd
    aead = r.choice([1, 2, 3])
    kdf = r.choice([1, 2, 3])
    suite = [r.choice([32, 16, 17, 18]), kdf, aead]
    groups = []
    for g in range(2):
        key, bn, ex = s.fresh(NK[aead], "key"), s.fresh(NN[aead], "bn"), s.fresh(NH[kdf], "exp")
        names = []
        for role, cnt in (("S", 2 if g == 0 else 1), ("R", 2 if g == 0 else 1)):
            for i in range(cnt):
                c = "%s%d%d" % (role.lower(), g, i)
                s.add("raw_ctx", {"key": key, "base_nonce": bn, "exporter_secret": ex}, ctx=c, suite=suite, role=role)
                names.append((c, role))
        groups.append(names)
    ctxs = [x for g in groups for x in g]
    msgs = []       # (event index, form)
    # bookkeeping only so that the script never refers to the output of a seal that was refused:
    # the position each SENDER was last put at by the script itself
    pos = {c: [0, False] for c, role in ctxs if role == "S"}
    boundary = [0, 1, 255, 256, 2**32 - 1, 2**32, 2**64 - 2, 2**64 - 1]
    for _ in range(nsteps):
        c, role = r.choice(ctxs)
        x = r.random()
        if x < 0.08:
            v = r.choice(boundary) if r.random() < 0.7 else r.getrandbits(64)
            ovf_in = (r.random() < 0.1 and v == 2**64 - 1)
            s.add("set_seq", {}, ctx=c, seq_in=list(v.to_bytes(8, "big")), ovf_in=ovf_in)
            if c in pos:
                pos[c] = [v, ovf_in]
        elif x < 0.2:
            s.add("export", {"exporter_ctx": s.fresh(s.rlen())}, ctx=c, len=r.choice([0, 1, 16, 32, 33, 255 * NH[kdf], 255 * NH[kdf] + 1, 65536]))
        elif role == "S":
            form = r.choice(["alloc", "detached"])
            i = s.add("seal", {"pt": s.fresh(s.rlen(True), "pt"), "aad": s.fresh(s.rlen(), "aad")}, ctx=c, form=form)
            if not pos[c][1]:
                msgs.append((i, form))
                if pos[c][0] == 2**64 - 1:
                    pos[c][1] = True
                else:
                    pos[c][0] += 1
        else:
            form = r.choice(["alloc", "detached"])
            if not msgs or r.random() < 0.1:
                body, tag, aad = s.fresh(s.rlen(), "junk"), s.fresh(16, "junktag"), s.fresh(s.rlen(), "aad")
            else:
                i, mform = r.choice(msgs[-6:]) if r.random() < 0.8 else r.choice(msgs)
                aad = s.cmds[i]["args"]["aad"]
                ptlen = s.cmds[i]["args"]["pt"].a[1]
                if mform == "alloc":
                    whole = E("out", i, "ct")
                    body, tag = E("take", whole, ptlen), E("drop", whole, ptlen)
                else:
                    body, tag = E("out", i, "ct"), E("out", i, "tag")
                y = r.random()
                if y < 0.55:
                    pass                                    # verbatim: next, replay or future
                elif y < 0.65 and ptlen > 0:
                    body = E("flip", body, r.randrange(8 * ptlen))
                elif y < 0.75:
                    tag = E("flip", tag, r.randrange(128))
                elif y < 0.85:
                    aad = s.fresh(s.rlen(), "aad") if r.random() < 0.5 or aad.a[1] == 0 else E("flip", aad, r.randrange(8 * aad.a[1]))
                elif y < 0.92 and ptlen > 0:
                    body = E("take", body, r.randrange(ptlen))
                else:
                    body = E("cat", body, Lit(bytes(r.randrange(1, 17))))
            if form == "alloc":
                s.add("open", {"ct": E("cat", body, tag), "aad": aad}, ctx=c, form=form)
            else:
                s.add("open", {"ct": body, "tag": tag, "aad": aad}, ctx=c, form=form)
    return s


def gen_session_profile(seed, nsessions=6, nsteps=40, threads=0, mismatch=0.0, long=False):
    """real setups of all suites and modes, matching (or, with probability `mismatch`, differing in one argument);
    messages, exports on both sides, single-shot calls; optional thread placement"""
    s = Script(seed)
    r = s.rnd
    for _ in range(nsessions):
        kem, kdf, aead = r.choice([32, 16, 17, 18]), r.choice([1, 2, 3]), r.choice([1, 2, 3, 65535])
        suite = [kem, kdf, aead]
        mode = r.choice([0, 1, 2, 3])
        tid = s.nfresh
        kr = s.add("derive_keypair", {"ikm": s.fresh(NSK[kem], "ikm")}, kem=kem)
        ks = s.add("derive_keypair", {"ikm": s.fresh(r.choice([0, 7, NSK[kem], 100]), "ikm")}, kem=kem)
        ko = s.add("derive_keypair", {"ikm": s.fresh(NSK[kem], "ikm")}, kem=kem)
        info = s.fresh(s.rlen(long), "info")
        psk, pskid = s.fresh(r.choice([1, 32, 64]), "psk"), s.fresh(r.choice([1, 8, 65]), "pskid")
        sargs = {"pk_r": E("out", kr, "pk"), "info": info, "rng": s.fresh(NSK[kem] + r.choice([0, 9]), "rng")}
        rargs = {"sk_r": E("out", kr, "sk"), "info": info}
        if mode in (1, 3):
            sargs.update(psk=psk, psk_id=pskid)
            rargs.update(psk=psk, psk_id=pskid)
        if mode in (2, 3):
            sargs.update(sk_s=E("out", ks, "sk"), pk_s=E("out", ks, "pk"))
            rargs.update(pk_s=E("out", ks, "pk"))
        cs, cr = "s%d" % tid, "r%d" % tid
        th = (lambda: r.randrange(1, threads + 1)) if threads else (lambda: 0)
        i_s = s.add("setup_s", sargs, ctx=cs, suite=suite, mode=mode, thread=th())
        rargs["enc"] = E("out", i_s, "enc")
        rsuite, rmode = suite, mode
        if r.random() < mismatch:
            what = r.choice(["info", "sk_r", "enc", "kdf", "aead", "psk", "psk_id", "pk_s", "infoflip"])
            if what == "info":
                rargs["info"] = s.fresh(s.rlen() + 1, "info")
            elif what == "infoflip" and info.a[1] > 0:
                rargs["info"] = E("flip", info, r.randrange(8 * info.a[1]))
            elif what == "sk_r":
                rargs["sk_r"] = E("out", ko, "sk")
            elif what == "enc":
                rargs["enc"] = E("out", ko, "pk")
            elif what == "kdf":
                rsuite = [kem, r.choice([k for k in (1, 2, 3) if k != kdf]), aead]
            elif what == "aead":
                rsuite = [kem, kdf, r.choice([a for a in (1, 2, 3) if a != aead])]
            elif what in ("psk", "psk_id") and mode in (1, 3):
                rargs[what] = s.fresh(9, what)
            elif what == "pk_s" and mode in (2, 3):
                rargs["pk_s"] = E("out", ko, "pk")
        s.add("setup_r", rargs, ctx=cr, suite=rsuite, mode=rmode, thread=th())
        msgs = []
        for _ in range(r.randrange(3, nsteps)):
            x = r.random()
            if x < 0.4:
                form = r.choice(["alloc", "detached"])
                i = s.add("seal", {"pt": s.fresh(s.rlen(long), "pt"), "aad": s.fresh(s.rlen(), "aad")}, ctx=cs, form=form, thread=th())
                if aead != 65535:           # an export-only context panics instead of sealing: nothing to deliver
                    msgs.append((i, form))
            elif x < 0.75 and msgs:
                i, mform = msgs[0] if r.random() < 0.8 else r.choice(msgs)
                if (i, mform) == msgs[0] and r.random() < 0.9:
                    msgs.pop(0)
                aad = s.cmds[i]["args"]["aad"]
                ptlen = s.cmds[i]["args"]["pt"].a[1]
                form = r.choice(["alloc", "detached"])
                if mform == "alloc":
                    whole = E("out", i, "ct")
                    body, tag = E("take", whole, ptlen), E("drop", whole, ptlen)
                else:
                    body, tag = E("out", i, "ct"), E("out", i, "tag")
                if aead == 65535:
                    tag = Lit(b"")
                if form == "alloc":
                    s.add("open", {"ct": E("cat", body, tag), "aad": aad}, ctx=cr, form=form, thread=th())
                else:
                    s.add("open", {"ct": body, "tag": tag, "aad": aad}, ctx=cr, form=form, thread=th())
            elif x < 0.9:
                ectx = s.fresh(s.rlen(long), "ectx")
                L = r.choice([0, 1, 16, 32, 64, 255 * NH[kdf], 255 * NH[kdf] + 1])
                s.add("export", {"exporter_ctx": ectx}, ctx=cs, len=L, thread=th())
                s.add("export", {"exporter_ctx": ectx}, ctx=cr, len=L, thread=th())
            else:
                form = r.choice(["alloc", "detached"])
                a2 = dict(sargs)
                a2["rng"] = s.fresh(NSK[kem], "rng")
                pt, aad = s.fresh(s.rlen(long), "pt"), s.fresh(s.rlen(), "aad")
                a2.update(pt=pt, aad=aad)
                i = s.add("single_shot_seal", a2, suite=suite, mode=mode, form=form, thread=th())
                if aead != 65535:
                    b2 = dict(rargs)
                    b2["enc"] = E("out", i, "enc")
                    if form == "alloc":
                        b2.update(ct=E("out", i, "ct"), aad=aad)
                    else:
                        b2.update(ct=E("out", i, "ct"), tag=E("out", i, "tag"), aad=aad)
                    s.add("single_shot_open", b2, suite=rsuite, mode=rmode, form=form, thread=th())
    return s


def gen_lengths_profile(seed, upto=300):
    """one real session (random suite / mode), messages of EVERY plaintext length 0..upto (aad length upto - i),
    alternating forms, delivered in order"""
    s = Script(seed)
    r = s.rnd
    kem, kdf, aead = r.choice([32, 16, 17, 18]), r.choice([1, 2, 3]), r.choice([1, 2, 3])
    suite = [kem, kdf, aead]
    kr = s.add("derive_keypair", {"ikm": s.fresh(NSK[kem], "ikm")}, kem=kem)
    info = s.fresh(r.randrange(0, 70), "info")
    i_s = s.add("setup_s", {"pk_r": E("out", kr, "pk"), "info": info, "rng": s.fresh(NSK[kem], "rng")}, ctx="s", suite=suite, mode=0)
    s.add("setup_r", {"sk_r": E("out", kr, "sk"), "info": info, "enc": E("out", i_s, "enc")}, ctx="r", suite=suite, mode=0)
    for i in range(upto + 1):
        form = "alloc" if (i + seed) % 2 else "detached"
        pt, aad = s.fresh(i, "pt"), s.fresh(upto - i, "aad")
        k = s.add("seal", {"pt": pt, "aad": aad}, ctx="s", form=form)
        oform = "alloc" if (i // 2 + seed) % 2 else "detached"
        if form == "alloc":
            whole = E("out", k, "ct")
            body, tag = E("take", whole, i), E("drop", whole, i)
        else:
            body, tag = E("out", k, "ct"), E("out", k, "tag")
        if oform == "alloc":
            s.add("open", {"ct": E("cat", body, tag), "aad": aad}, ctx="r", form=oform)
        else:
            s.add("open", {"ct": body, "tag": tag, "aad": aad}, ctx="r", form=oform)
    return s


def gen_weakhash_profile(seed, suite=(32, 1, 1), n=28):
    """sender and receiver that differ in ONE key-schedule input, the two values being distinct strings of equal
    length that collide under a common non-cryptographic digest (weakhash.py); the two setups are consecutive
    calls of one process, in both orders; then a message and an export on both sides"""
    from . import weakhash
    s = Script(seed)
    kem, kdf, aead = suite
    pairs = weakhash.pairs(n, seed)
    kr = s.add("derive_keypair", {"ikm": s.fresh(NSK[kem], "ikm")}, kem=kem)
    k = 0
    # long values that agree except for ONE bit in the middle / just inside the first or last 512 bytes (a fingerprint
    # over the ends, over a prefix, over sampled positions): a fresh value and a flipped copy of it
    longs = {}
    for n_long in (1100, 2500, 4200):
        v = s.fresh(n_long, "long")
        for pos in (n_long // 2, 513, n_long - 514, 300):
            longs["long%d@%d" % (n_long, pos)] = (v, E("flip", v, 8 * pos + 3))
    for field in ("info", "psk_id", "psk"):
        for kind, (a, b) in sorted(pairs.items()) + sorted(longs.items()):
            for order in (0, 1):
                k += 1
                mode = 0 if field == "info" and k % 2 else 1
                vals = {"info": Lit(b"common info"), "psk": Lit(b"p" * 32), "psk_id": Lit(b"common id")}
                sv, rv = dict(vals), dict(vals)
                sv[field], rv[field] = (Lit(a), Lit(b)) if isinstance(a, bytes) else (a, b)
                sargs = {"pk_r": E("out", kr, "pk"), "info": sv["info"], "rng": s.fresh(NSK[kem], "rng")}
                rargs = {"sk_r": E("out", kr, "sk"), "info": rv["info"]}
                if mode == 1:
                    sargs.update(psk=sv["psk"], psk_id=sv["psk_id"])
                    rargs.update(psk=rv["psk"], psk_id=rv["psk_id"])
                cs, cr = "s%d" % k, "r%d" % k
                if order == 0:
                    i_s = s.add("setup_s", sargs, ctx=cs, suite=list(suite), mode=mode)
                    s.add("setup_r", dict(rargs, enc=E("out", i_s, "enc")), ctx=cr, suite=list(suite), mode=mode)
                else:
                    # the receiver's string is seen first (by a throw-away sender), then sender and receiver
                    s.add("setup_s", dict(sargs, info=rv["info"], **({"psk": rv["psk"], "psk_id": rv["psk_id"]} if mode else {})),
                          ctx=cs + "x", suite=list(suite), mode=mode)
                    i_s = s.add("setup_s", sargs, ctx=cs, suite=list(suite), mode=mode)
                    s.add("setup_r", dict(rargs, enc=E("out", i_s, "enc")), ctx=cr, suite=list(suite), mode=mode)
                if aead != 65535:
                    aad = Lit(b"aad")
                    i = s.add("seal", {"pt": s.fresh(21, "pt"), "aad": aad}, ctx=cs, form="alloc")
                    s.add("open", {"ct": E("out", i, "ct"), "aad": aad}, ctx=cr, form="alloc")
                ectx = Lit(b"ectx")
                s.add("export", {"exporter_ctx": ectx}, ctx=cs, len=32)
                s.add("export", {"exporter_ctx": ectx}, ctx=cr, len=32)
    return s
