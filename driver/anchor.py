"""Anchor self-test: the specification's own terms for the RFC 9180 Appendix A inputs, evaluated by
the primitive oracle, must reproduce the published outputs (DESIGN 4.4, Appendix C)."""
import os
import sys

from oracle.terms import ExactEval
from . import tlcrun
from .common import SPEC, ToolError

PT = "4265617574792069732074727574682c20747275746820626561757479"
EXPECT = {
    "A11": dict(
        skE="52c4a758a802cd8b936eceea314432798d5baf2d7e9235dc084ab1b9cfa2f736",
        enc="37fda3567bdbd628e88668c3c8d7e97d1d1253b6d4ea6d44c150f741f1bf4431",
        pkR="3948cfe0ad1ddb695d780e59077195da6c56506b027329794ab02bca80815c4d",
        ss="fe0e18c9f024ce43799ae393c7e8fe8fce9d218875e8227b0187c04e7d2ea1fc",
        key="4531685d41d65f03dc48f6b8302c05b0", bn="56d890e5accaaf011cff4b7d",
        exp="45ff1c2e220db587171952c0592d5f5ebe103f1561a2614e38f2ffd47e99e3f8",
        ct0="f938558b5d72f1a23810b4be2ab4f84331acc02fc97babc53a52ae8218a355a96d8770ac83d07bea87e13c512a",
        ct1="af2d7e9ac9ae7e270f46ba1f975be53c09f8d875bdc8535458c2494e8a6eab251c03d0c22a56b8ca42c2063b84",
        exports=["3853fe2b4035195a573ffc53856e77058e15d9ea064de3e59f4961d0095250ee",
                 "2e8f0b54673c7029649d4eb9d5e33bf1872cf76d623ff164ac185da9e88c21a5",
                 "e9e43065102c3836401bed8c3c3c75ae46be1639869391d62c61f1ec7af54931"]),
    "A12": dict(
        enc="0ad0950d9fb9588e59690b74f1237ecdf1d775cd60be2eca57af5a4b0471c91b",
        pkR="9fed7e8c17387560e92cc6462a68049657246a09bfa8ade7aefe589672016366",
        ss="727699f009ffe3c076315019c69648366b69171439bd7dd0807743bde76986cd",
        key="15026dba546e3ae05836fc7de5a7bb26", bn="9518635eba129d5ce0914555",
        exp="3d76025dbbedc49448ec3f9080a1abab6b06e91c0b11ad23c912f043a0ee7655"),
    "A13": dict(
        skE="ff4442ef24fbc3c1ff86375b0be1e77e88a0de1e79b30896d73411c5ff4c3518",
        enc="23fb952571a14a25e3d678140cd0e5eb47a0961bb18afcf85896e5453c312e76",
        pkR="1632d5c2f71c2b38d0a8fcc359355200caa8b1ffdf28618080466c909cb69b2e",
        ss="2d6db4cf719dc7293fcbf3fa64690708e44e2bebc81f84608677958c0d4448a7",
        key="b062cb2c4dd4bca0ad7c7a12bbc341e6", bn="a1bc314c1942ade7051ffed0",
        exp="ee1a093e6e1c393c162ea98fdf20560c75909653550540a2700511b65c88c6f1"),
    "A21": dict(
        enc="1afa08d3dec047a643885163f1180476fa7ddb54c6a8029ea33f95796bf2ac4a",
        pkR="4310ee97d88cc1f088a5576c77ab0cf5c3ac797f3d95139c6c84b5429c59662a",
        ss="0bbe78490412b4bbea4812666f7916932b828bba79942424abb65244930d69a7",
        key="ad2744de8e17f4ebba575b3f5f5a8fa1f69c2a07f6e7500bc60ca6e3e3ec1c91", bn="5c4d98150661b848853b547f",
        exp="a3b010d4994890e2c6968a36f64470d3c824c8f5029942feb11e7a74b2921922"),
    "A31": dict(
        enc="04a92719c6195d5085104f469a8b9814d5838ff72b60501e2c4466e5e67b325ac98536d7b61a1af4b78e5b7f951c0900be863c403ce65c9bfcb9382657222d18c4",
        pkR="04fe8c19ce0905191ebc298a9245792531f26f0cece2460639e8bc39cb7f706a826a779b4cf969b8a0e539c7f62fb3d30ad6aa8f80e30f1d128aafd68a2ce72ea0",
        ss="c0d26aeab536609a572b07695d933b589dcf363ff9d93c93adea537aeabb8cb8",
        key="868c066ef58aae6dc589b6cfdd18f97e", bn="4e0bc5018beba4bf004cca59",
        exp="14ad94af484a7ad3ef40e9f3be99ecc6fa9036df9d4920548424df127ee0d99f"),
}


def run():
    res = tlcrun.run("MC_Anchor", os.path.join(SPEC, "MC_Anchor.cfg"), workers=1, timeout=120)
    if not res.printed:
        raise ToolError("MC_Anchor printed nothing:\n" + res.raw_tail)
    allv = res.printed[0]
    ev = ExactEval({})
    n = 0
    for name, exp in EXPECT.items():
        v = allv[name]
        for f, want in exp.items():
            if f == "exports":
                got = [ev.eval(c).hex() for c in v["exports"]]
                ok = got == want
            else:
                got = ev.eval(v[f]).hex()
                ok = got == want
            n += 1
            if not ok:
                raise ToolError("anchor %s.%s: specification+oracle give %s, RFC 9180 says %s" % (name, f, got, want))
        # receiver side of the specification: same shared secret, opens both messages
        if ev.eval(v["ssR"]) != ev.eval(v["ss"]):
            raise ToolError("anchor %s: Decap term evaluates differently from Encap term" % name)
        if v["opened"] != ["ok", "ok"] or ev.eval(v["pt0"]).hex() != PT or ev.eval(v["pt1"]).hex() != PT:
            raise ToolError("anchor %s: the specification's receiver does not open the specification's messages" % name)
        n += 3
    return n


if __name__ == "__main__":
    try:
        print("anchor: OK (%d values of RFC 9180 Appendix A reproduced from spec terms)" % run())
    except ToolError as e:
        print("anchor: FAILED:", e)
        sys.exit(2)
