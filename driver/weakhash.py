"""Pairs of distinct, equally long byte strings that collide under the non-cryptographic digests a cache or a
"fast path" is likely to be keyed by (FNV, CRC-32, Adler-32, djb2, sdbm, byte sums, a prefix / suffix).  The
specification binds a session to the full strings (HpkeSchedule: info_hash / psk_id_hash are injective in the
term algebra), so a receiver configured with the other string of a pair must NOT end up in the sender's
session - whatever the library remembers between calls.  Found by a seeded birthday search (32-bit digests need
~10^5 candidates), nothing is looked up in the library."""
import random
import zlib

M32 = 0xFFFFFFFF


def fnv1a32(b):
    h = 0x811C9DC5
    for x in b:
        h = ((h ^ x) * 0x01000193) & M32
    return h


def fnv1_32(b):
    h = 0x811C9DC5
    for x in b:
        h = ((h * 0x01000193) & M32) ^ x
    return h


def djb2(b):
    h = 5381
    for x in b:
        h = (h * 33 + x) & M32
    return h


def sdbm(b):
    h = 0
    for x in b:
        h = (x + (h << 6) + (h << 16) - h) & M32
    return h


def fnv1a64_fold32(b):
    h = 0xCBF29CE484222325
    for x in b:
        h = ((h ^ x) * 0x100000001B3) & 0xFFFFFFFFFFFFFFFF
    return (h ^ (h >> 32)) & M32


DIGESTS = {
    "fnv1a32": fnv1a32, "fnv1-32": fnv1_32, "crc32": lambda b: zlib.crc32(b) & M32, "adler32": lambda b: zlib.adler32(b) & M32,
    "djb2": djb2, "sdbm": sdbm, "fnv1a64-folded": fnv1a64_fold32,
    "bytesum": lambda b: sum(b), "xor": lambda b: __import__("functools").reduce(lambda a, c: a ^ c, b, 0),
}


def collision(name, n, rnd, prefix=b"tenant=", alphabet=b"0123456789"):
    """two distinct n-byte strings with the same digest; printable (a cache key of real deployments), seeded"""
    f = DIGESTS[name]
    seen = {}
    body = n - len(prefix)
    for _ in range(3_000_000):
        s = prefix + bytes(rnd.choice(alphabet) for _ in range(body))
        h = f(s)
        o = seen.get(h)
        if o is not None and o != s:
            return o, s
        seen[h] = s
    raise RuntimeError("no %s collision found" % name)


def pairs(n, seed):
    rnd = random.Random(seed)
    out = {k: collision(k, n, rnd) for k in DIGESTS}
    a = bytes(rnd.randrange(256) for _ in range(n))
    mid = n // 2
    out["same-ends"] = (a, a[:mid] + bytes([a[mid] ^ 1]) + a[mid + 1:])                 # first and last 8 bytes equal
    out["same-prefix"] = (a, a[:-1] + bytes([a[-1] ^ 0x80]))
    out["same-suffix"] = (a, bytes([a[0] ^ 0x80]) + a[1:])
    for k, (x, y) in out.items():
        assert x != y and len(x) == len(y) == n, k
    return out
