"""Building blocks shared by the per-property checks: model checking runs, behaviour / transition
generation with TLC, and their replay on the implementation."""
import json
import os
import random

from oracle.terms import leaves_of, blen
from . import tlcrun
from .common import ToolError, outdir, seed, log, NCPU
from .execproc import Executor, result_kind
from .replay import Replayer, make_leaves, fingerprint, ALL


def cfg_for(check, name, base, overrides=None, invariants=None, properties=None, extra=None):
    path = os.path.join(outdir(check.prop), name + ".cfg")
    return tlcrun.write_cfg(path, base, overrides, invariants, properties, extra)


def model_check(check, module, base, name, overrides=None, invariants=None, properties=None, workers=None,
                timeout=1800, extra=None):
    """Exhaustive TLC run with the property's invariants.  A violation here means the SPECIFICATION
    does not have the property - the machinery is broken, not the code - hence a tool error."""
    cfg = cfg_for(check, name, base, overrides, invariants, properties, extra)
    res = tlcrun.run(module, cfg, workers=workers or min(8, NCPU), timeout=timeout)
    if res.violated:
        raise ToolError("specification %s/%s violates %s:\n%s" % (module, name, res.violated, res.raw_tail))
    check.add_tlc(res.stats, name)
    return res


def generate(check, module, base, name, overrides=None, invariants=None, simulate=None, depth=40,
             workers=None, timeout=1800, on_value=None, tlc_seed=None, extra=None):
    """TLC run whose `invariants` print JSON values (behaviours or transitions)."""
    cfg = cfg_for(check, name, base, overrides, invariants, [], extra)
    res = tlcrun.run(module, cfg, workers=workers or 1, simulate=simulate, depth=depth, timeout=timeout,
                     on_value=on_value, seed=tlc_seed)
    if res.violated:
        raise ToolError("generation run %s/%s failed: %s\n%s" % (module, name, res.violated, res.raw_tail))
    if not simulate:
        check.add_tlc(res.stats, name)
    return res


def steps_of(beh):
    """a printed behaviour is either a list of steps or {pro: {name: step}, hist: [...]}"""
    if isinstance(beh, dict):
        pro = beh.get("pro") or {}
        pro_steps = [pro[k] for k in sorted(pro)] if isinstance(pro, dict) else list(pro)
        return pro_steps + list(beh["hist"])
    return list(beh)


class Session:
    """an executor plus bookkeeping for replaying many behaviours"""

    def __init__(self, check, profile="release"):
        self.check = check
        self.profile = profile
        self.ex = Executor(profile=profile)
        self.n = 0

    def close(self):
        self.ex.close()

    def replay(self, steps, exact_tags=frozenset(), label=None, sample=True, leaf_seed=None, **kw):
        """replay one behaviour; returns True iff it conforms"""
        self.n += 1
        prefix = "b%d_" % self.n
        leaves = make_leaves(leaves_of(steps), seed() if leaf_seed is None else leaf_seed)
        if leaf_seed is not None:
            kw = dict(kw, memo={})        # the shared memo is only valid for the run's own leaf values
        rp = Replayer(self.ex, leaves, exact_tags=exact_tags, prefix=prefix, **kw)
        idx, bad = rp.run(steps)
        self.last_trace = rp.trace if idx is None else None
        names = {prefix + st["c"] for st in steps if st.get("c")}
        for nme in names:
            self.ex.call({"op": "drop", "ctx": nme})
        if idx is None:
            self.check.trace_ok()
            if sample:
                self.check.sample({"behaviour": label or self.n,
                                   "calls": [summarise(c, e) for c, e in rp.trace[:12]]})
            return True
        if all(b.startswith("TOOL:") for b in bad):
            raise ToolError("replay of behaviour %s failed at step %d: %s" % (label or self.n, idx, bad))
        # confirm on a fresh executor process before reporting (rules out harness state)
        with Executor(profile=self.profile) as ex2:
            rp2 = Replayer(ex2, leaves, exact_tags=exact_tags, prefix="v_", **kw)
            idx2, bad2 = rp2.run(steps)
        if idx2 is None:
            return self.history_dependent(steps, idx, bad, rp, label)
        st = steps[idx2]
        self.check.violation(
            "step %d (%s%s): %s" % (idx2, st["op"], "/" + st["form"] if st.get("form") else "", "; ".join(bad2)),
            {"kind": "behaviour", "profile": self.profile, "exact_tags": "ALL" if exact_tags == ALL else sorted(exact_tags),
             "seed": seed() if leaf_seed is None else leaf_seed, "steps": steps[:idx2 + 1], "mismatch": bad2,
             "calls": [{"cmd": c, "event": e} for c, e in rp2.trace[-4:]],
             "options": {k: v for k, v in kw.items()},
             "fingerprint": fingerprint(st, bad2)})
        return False


class TransitionBatch:
    """Collects one-transition tests and runs them grouped by pre-state: the state is re-created once
    per group, calls that do not change it (refusals, exports) are made back to back on it, and the
    state is re-created for every call that does change it (or after any mismatch)."""

    def __init__(self, ses, exact_tags=frozenset(), label="", prologue=None, **kw):
        self.ses = ses
        self.exact_tags = exact_tags
        self.label = label
        self.kw = kw
        self.prologue = prologue
        self.groups = {}
        self.n = 0

    def add(self, tr):
        steps = transition_steps(tr, self.prologue)
        key = json.dumps(steps[:-1], sort_keys=True, separators=(",", ":"))
        g = self.groups.get(key)
        if g is None:
            g = self.groups[key] = (steps[:-1], [], [])
        last = steps[-1]
        changes = last.get("kind") == "ok" and last["op"] not in ("export",) and last.get("pre") != last.get("post")
        creates = last["op"] in ("setup_s", "setup_r", "raw_ctx", "single_shot_seal", "set_seq")
        (g[2] if (changes or creates) else g[1]).append(last)
        self.n += 1
        seen = self.ses.check.outcomes
        k = "%s/%s%s" % (last["op"], last.get("kind"), "/" + last["err"] if last.get("err") else "")
        seen[k] = seen.get(k, 0) + 1
        self.pending = getattr(self, "pending", 0) + 1
        if self.pending >= 3000:
            # bound the memory of big runs: test what has been collected so far (TLC waits on its pipe meanwhile)
            self.run()

    def run(self):
        ses = self.ses
        self.pending = 0
        for prefix, stable, changing in self.groups.values():
            todo = list(stable)
            pick = next((c for c in changing if c["op"] in ("open", "seal") and c.get("kind") == "ok"), changing[0]) if changing else None
            if pick is not None and pick["op"] == "open":
                # the rejected deliveries made from the SAME message as the one that will be accepted come last, and
                # of those the ones that keep its tag (damaged body, other aad) very last: whatever a receiver might
                # remember about a failure, the genuine message arrives right after its closest relatives
                src = lambda st: (st.get("plain") or {}).get("d") or {}
                ps = src(pick)
                rank = lambda st: (st["op"] == "open" and st.get("c") == pick.get("c") and src(st).get("s") == ps.get("s")
                                   and src(st).get("i") == ps.get("i"),
                                   src(st).get("k") in ("flipct", "flipaad", "swapaad", "emptyaad", "extendaad", "truncaad"),
                                   src(st).get("k") == "flipaad")
                todo.sort(key=rank)
            if any(st["op"] != "export" for st in stable):
                # a refused / failed call is a stutter step of the specification: whatever the state answered before
                # it, it answers after it - so the exports of this state are asked again after the failures
                # (in the opposite order: a shorter output asked after a longer one and vice versa)
                todo += [st for st in reversed(stable) if st["op"] == "export"]
            while todo:
                # one state, many calls
                ses.n += 1
                pfx = "g%d_" % ses.n
                allsteps = prefix + todo
                leaves = make_leaves(leaves_of(allsteps + ([pick] if pick is not None else [])), seed())
                rp = Replayer(ses.ex, leaves, exact_tags=self.exact_tags, prefix=pfx, **self.kw)
                idx, bad = rp.run(prefix)
                if idx is not None:
                    ses.replay(prefix[:idx + 1], exact_tags=self.exact_tags, label=self.label + " (state setup)", **self.kw)
                    todo = []
                    break
                failed_at = None
                for i, last in enumerate(todo):
                    bad = rp.step(last)
                    if bad:
                        failed_at = i
                        break
                    ses.check.trace_ok()
                if failed_at is None and stable and changing and not getattr(self, "no_follow", False):
                    # ... and what the state accepted before those calls it accepts after them: one state-changing call
                    # (preferably a successful seal / open) is made on the SAME state, after the calls that the
                    # specification says left it unchanged
                    if rp.step(pick):
                        nv = len(ses.check.violations)
                        if ses.replay(prefix + [pick], exact_tags=self.exact_tags, label=self.label, sample=False, **self.kw):
                            ses.replay(prefix + todo + [pick], exact_tags=self.exact_tags, sample=False,
                                       label=self.label + " (after calls that must leave the state unchanged)", **self.kw)
                        if len(ses.check.violations) == nv:
                            raise ToolError("a call deviated from the specification after a batch of state-preserving calls "
                                            "but conforms when replayed: %s" % json.dumps(pick)[:300])
                    else:
                        ses.check.trace_ok()
                for nme in {pfx + st["c"] for st in allsteps + changing if st.get("c")}:
                    ses.ex.call({"op": "drop", "ctx": nme})
                if failed_at is None:
                    if stable:
                        ses.check.sample({"behaviour": self.label, "calls": [summarise(c, e) for c, e in rp.trace[-3:]]})
                    break
                # report through the single-behaviour path (fresh executor confirmation), then go on
                nv = len(ses.check.violations)
                ok = ses.replay(prefix + [todo[failed_at]], exact_tags=self.exact_tags, label=self.label, sample=False, **self.kw)
                if ok and failed_at > 0:
                    # the call conforms on a freshly created state: the deviation needs the calls made before it on this
                    # state - calls the specification says change nothing (refusals, rejections, exports)
                    ok = ses.replay(prefix + todo[:failed_at + 1], exact_tags=self.exact_tags, sample=False,
                                    label=self.label + " (after calls that must leave the state unchanged)", **self.kw)
                if ok and len(ses.check.violations) == nv:
                    raise ToolError("a call deviated from the specification when made in a batch on one state but conforms "
                                    "when replayed: %s" % json.dumps(todo[failed_at])[:300])
                todo = todo[failed_at + 1:]
            for last in changing:
                ses.replay(prefix + [last], exact_tags=self.exact_tags, label=self.label,
                           sample=len(ses.check.cov["samples"]) < 3, **self.kw)
        self.groups = {}


def _history_dependent(self, steps, idx, bad, rp, label):
    """The same calls with the same arguments conform on a fresh process but not in this one: the result depends on
    what the process did before.  Re-run the WHOLE command history on a fresh process; if the deviation shows again
    it is a deterministic function of the history and is reported with that history as its replay."""
    hist = self.ex.history()
    cmd_bad, ev_bad = rp.trace[-1]
    if hist is None:
        raise ToolError("mismatch did not reproduce on a fresh executor and the command history is too long to replay: %s" % bad)
    with Executor(profile=self.profile) as ex3:
        evs = [ex3.call(c) for c in hist]
    # the mismatching call is the last one of this behaviour in the history (drop commands follow it)
    pos = max(i for i, c in enumerate(hist) if c == cmd_bad)
    strip = lambda e: {k: e.get(k) for k in ("ok", "err", "panic", "seq", "ovf")}
    same = strip(evs[pos]) == strip(ev_bad)
    st = steps[idx]
    self.check.violation(
        "step %d (%s): %s - only after this process's earlier calls: the same call conforms on a fresh process (%s)"
        % (idx, st["op"], "; ".join(bad), "reproducible from the recorded history" if same else "NOT reproducible: timing / thread dependent"),
        {"kind": "history", "seed": seed(), "history": hist[:pos + 1] if len(json.dumps(hist[:pos + 1])) < 20_000_000 else "too long",
         "mismatch": bad, "event": ev_bad, "steps": steps[:idx + 1], "reproducible": same,
         "fingerprint": "history-" + fingerprint(st, bad)})
    return False


Session.history_dependent = _history_dependent


def require_outcomes(chk, needed):
    """vacuity guard: the generated transitions must include these (call/outcome) classes, else the model (or a menu)
    no longer exercises what the property is about"""
    missing = [k for k in needed if not chk.outcomes.get(k)]
    chk.cov["outcomes_exercised"] = dict(sorted(chk.outcomes.items()))
    if missing:
        raise ToolError("the bounded models did not exercise: %s (have %s)" % (missing, sorted(chk.outcomes)))


def summarise(cmd, ev):
    c = {k: (v if not isinstance(v, str) or len(v) <= 40 else v[:32] + "..(%d bytes)" % (len(v) // 2))
         for k, v in cmd.items()}
    kind = result_kind(ev)
    r = {"result": kind}
    if kind == "err":
        r["err"] = ev["err"]["variant"]
    if kind == "ok":
        r["ok"] = {k: (v if not isinstance(v, str) or len(v) <= 40 else v[:32] + "..(%d bytes)" % (len(v) // 2))
                   for k, v in ev["ok"].items()}
    if "seq" in ev:
        r["seq"], r["ovf"] = ev["seq"], ev["ovf"]
    return {"cmd": c, "event": r}


def _fmap(x):
    """ToJson prints an empty TLA+ function as [] and a non-empty one with string keys as an object"""
    return x if isinstance(x, dict) else {}


def transition_steps(tr, prologue=None):
    """Turn one printed transition (TransitionRecord of Hpke.tla) into a self-contained behaviour that
    re-creates the pre-state through the API and then makes the call: the calls that created every
    context, every message sealed so far, every message accepted so far, then `last`."""
    last = tr["last"]
    steps = list(prologue or [])
    made = _fmap(tr.get("made"))
    created_by_last = last["op"] in ("setup_s", "setup_r", "raw_ctx") and last.get("kind") == "ok"
    # senders first: a receiver's setup consumes the sender's encapsulated key
    for c in sorted(made, key=lambda n: (1 if made[n] and made[n][0]["op"] == "setup_r" else 0, n)):
        if created_by_last and c == last.get("c"):
            continue
        steps.extend(made[c])
    shots = list(tr.get("shots") or [])
    if last["op"] == "single_shot_seal" and last.get("kind") == "ok" and shots:
        shots = shots[:-1]
    steps.extend(shots)
    for c, recs in sorted(_fmap(tr.get("sent")).items()):
        recs = list(recs)
        if last["op"] == "seal" and last.get("kind") == "ok" and last.get("c") == c and recs:
            recs = recs[:-1]
        steps.extend(recs)
    for c, recs in sorted(_fmap(tr.get("rcvd")).items()):
        recs = list(recs)
        if last["op"] == "open" and last.get("kind") == "ok" and last.get("c") == c and recs:
            recs = recs[:-1]
        steps.extend(recs)
    steps.append(last)
    return steps
