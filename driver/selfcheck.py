"""Cheap sanity checks run before every check: the oracle's primitives and the RFC anchor."""
import os
import subprocess
import sys

from .common import VERIF, ToolError, OUT

STAMP = os.path.join(OUT, ".preflight")


def preflight(force=False):
    # oracle self-test (~2 s) and anchor (~2 s); cached per content of oracle/ and spec/
    import hashlib
    h = hashlib.sha256()
    for d in ("oracle", "spec"):
        for f in sorted(os.listdir(os.path.join(VERIF, d))):
            if f.endswith((".py", ".tla")):
                with open(os.path.join(VERIF, d, f), "rb") as fh:
                    h.update(fh.read())
    digest = h.hexdigest()
    try:
        if not force and open(STAMP).read().strip() == digest:
            return
    except OSError:
        pass
    p = subprocess.run([sys.executable, os.path.join(VERIF, "oracle", "selftest.py")], stdout=subprocess.PIPE,
                       stderr=subprocess.STDOUT, text=True)
    if p.returncode != 0:
        raise ToolError("oracle self-test failed:\n" + p.stdout[-2000:])
    from . import anchor
    anchor.run()
    os.makedirs(OUT, exist_ok=True)
    with open(STAMP, "w") as f:
        f.write(digest)
