"""impl -> spec: run a random script on the real code, hand the log to TLC (spec/HpkeTrace.tla), and discharge
the byte obligations TLC prints (the specification's predicted outputs of every call)."""
import hashlib
import json
import os

from oracle.terms import leaves_of
from . import tlcrun
from .common import SPEC, ToolError, outdir, seed
from .execproc import run_script, result_kind
from .replay import MixedEval, make_leaves, ALL, LeafStore


def validate_lines(chk, lines, name):
    path = os.path.join(outdir(chk.prop), name + ".ndjson")
    with open(path, "w") as f:
        for l in lines:
            f.write(json.dumps(l) + "\n")
    res = tlcrun.run("HpkeTrace", os.path.join(SPEC, "HpkeTrace.cfg"), workers=1, timeout=3600, env={"HPKE_TRACE": path},
                     java_opts=["-Dtlc2.tool.queue.IStateQueue=StateDeque", "-Xss1g"])
    chk.add_tlc(res.stats, name)
    preds = [v for v in res.printed if isinstance(v, dict) and "i" in v]
    preds.sort(key=lambda v: v["i"])
    return res, preds


def run_trace(chk, script, name, exact_tags=frozenset(), compare_bytes=True, hook=None):
    """returns None if the log is a behaviour of the specification and all obligations hold, else a dict
    describing the first disagreement"""
    store = LeafStore(seed())

    def fresh(nme, n):
        return store.get(nme, n)
    cmds = []
    for c in script.cmds:
        cmd = {k: v for k, v in c.items() if k not in ("args", "seq_in", "ovf_in")}
        if not cmd.get("thread"):
            cmd.pop("thread", None)
        if c["op"] == "set_seq":
            cmd["seq"] = bytes(c["seq_in"]).hex()
            cmd["ovf"] = c["ovf_in"]
        for k, e in c["args"].items():
            cmd[k] = e.exec_arg(fresh)
        cmds.append(cmd)
    evs = run_script(cmds, timeout=1800)
    # a reference to an output that does not exist (the call it points to was refused): validate the prefix up
    # to there - the refusal itself is in it
    for k, ev in enumerate(evs):
        if "tool_error" in ev and "ref" in str(ev["tool_error"]):
            script.cmds = script.cmds[:k]
            cmds = cmds[:k]
            evs = evs[:k]
            break
    lines = []
    for c, ev in zip(script.cmds, evs):
        kind = result_kind(ev)
        if kind == "tool_error":
            raise ToolError("executor rejected a generated command: %s / %s" % (ev.get("tool_error"), json.dumps(c, default=str)[:300]))
        rec = {k: v for k, v in c.items() if k not in ("args", "thread")}
        rec["args"] = {k: e.trace() for k, e in c["args"].items()}
        rec.setdefault("ctx", "")
        rec.setdefault("form", "")
        rec["kind"] = kind
        rec["err"] = ev["err"]["variant"] if kind == "err" else ""
        rec["seq"] = list(bytes.fromhex(ev["seq"])) if "seq" in ev else []
        rec["ovf"] = bool(ev.get("ovf", False))
        lines.append(rec)
    if hook is not None:
        lines = hook(lines)          # self-test only: corrupt the log before TLC sees it
    res, preds = validate_lines(chk, lines, name)
    # 1. the log must be a behaviour of the specification
    for p in preds:
        if p["bad"]:
            i = p["i"] - 1
            return {"at": i, "why": "%s: implementation %s/%s state (%s,%s), specification %s/%s state %s"
                    % (p["bad"], lines[i]["kind"], lines[i]["err"], bytes(lines[i]["seq"]).hex(), lines[i]["ovf"],
                       p["kind"], p["err"], json.dumps(p["post"])),
                    "cmd": cmds[i], "event": evs[i], "script": cmds[:i + 1]}
    if res.violated:
        # an invariant / per-call property of the specification failed ON THIS TRACE
        return {"at": len(preds), "why": "specification property %s violated on the recorded trace" % res.violated,
                "cmd": cmds[min(len(preds), len(cmds) - 1)], "event": None, "script": cmds[:len(preds) + 1], "tlc": res.raw_tail[-1500:]}
    if len(preds) != len(lines):
        raise ToolError("TLC consumed %d of %d trace lines without reporting why\n%s" % (len(preds), len(lines), res.raw_tail))
    # 2. byte obligations: the predicted outputs against the bytes the library returned
    if compare_bytes:
        leaves = {}
        for c in script.cmds:
            for e in c["args"].values():
                _collect(e, leaves)
        lv = {nme: store.get(nme, n) for nme, n in leaves.items()}
        ev_ = MixedEval(lv, exact_tags)
        for p, c, ev in zip(preds, cmds, evs):
            if "ok" not in ev or not isinstance(p["out"], dict):
                continue
            for field, chunks in p["out"].items():
                if field not in ev["ok"]:
                    continue
                # leaves of predicted outputs are the script's fresh values
                for nme, n in leaves_of(chunks).items():
                    if nme not in ev_.leaves:
                        ev_.leaves[nme] = store.get(nme, n)
                        ev_.exact.leaves[nme] = ev_.leaves[nme]
                bad = ev_.observe(chunks, bytes.fromhex(ev["ok"][field]))
                if bad:
                    i = p["i"] - 1
                    return {"at": i, "why": "%s of %s: %s" % (field, c["op"], "; ".join(bad)), "cmd": c, "event": ev,
                            "script": cmds[:i + 1]}
            if p.get("untouched") and "buf_after" in ev:
                src = c.get("pt") if c["op"] == "seal" else c.get("ct")
                if isinstance(src, str) and ev["buf_after"] != src:
                    return {"at": p["i"] - 1, "why": "caller's buffer modified by a refused call", "cmd": c, "event": ev,
                            "script": cmds[:p["i"]]}
    chk.trace_ok()
    chk.notes["trace_events"] = chk.notes.get("trace_events", 0) + len(lines)
    return None


def _collect(e, acc):
    if e.kind == "fresh":
        acc[e.a[0]] = e.a[1]
    for x in e.a:
        if hasattr(x, "kind"):
            _collect(x, acc)


def report(chk, bad, label):
    fp = hashlib.sha256((bad["why"].split(":")[0] + str(bad["cmd"].get("op"))).encode()).hexdigest()[:16]
    chk.violation("%s: call %d (%s): %s" % (label, bad["at"], bad["cmd"].get("op"), bad["why"]),
                  {"kind": "trace", "script": bad["script"], "why": bad["why"], "event": bad.get("event"),
                   "tlc": bad.get("tlc"), "fingerprint": fp})
