"""C17: the feature lattice.  TLC (spec/HpkeFeatures.tla) enumerates the feature subsets with the API surface
each must have; the 'replay' of a subset is a set of builds against /repo's working tree."""
import json
import os
import shutil
import subprocess

from .common import VERIF, REPO, ToolError, outdir, log, NCPU

ALL_FEATURES = ["alloc", "std", "x25519", "p256", "p384", "p521"]
KEM_TYPE = {32: "X25519HkdfSha256", 16: "DhP256HkdfSha256", 17: "DhP384HkdfSha384", 18: "DhP521HkdfSha512"}

DUMMY_RNG = '''
pub struct Ctr(pub u8);
impl hpke::rand_core::RngCore for Ctr {
    fn next_u32(&mut self) -> u32 { let mut b = [0u8; 4]; self.fill_bytes(&mut b); u32::from_le_bytes(b) }
    fn next_u64(&mut self) -> u64 { let mut b = [0u8; 8]; self.fill_bytes(&mut b); u64::from_le_bytes(b) }
    fn fill_bytes(&mut self, d: &mut [u8]) { for x in d.iter_mut() { self.0 = self.0.wrapping_mul(31).wrapping_add(7); *x = self.0; } }
}
impl hpke::rand_core::CryptoRng for Ctr {}
'''

ITEMS = {
    "inplace": ["let _ = hpke::setup_sender::<A, K, M, Ctr>;", "let _ = hpke::setup_receiver::<A, K, M>;",
                "let _ = hpke::single_shot_seal_in_place_detached::<A, K, M, Ctr>;",
                "let _ = hpke::single_shot_open_in_place_detached::<A, K, M>;",
                "let _ = hpke::aead::AeadCtxS::<A, K, M>::seal_in_place_detached;",
                "let _ = hpke::aead::AeadCtxR::<A, K, M>::open_in_place_detached;",
                "let _ = hpke::aead::AeadCtxS::<A, K, M>::export;", "let _ = hpke::aead::AeadCtxR::<A, K, M>::export;",
                "let _ = hpke::PskBundle::new;"],
    "allocating": ["let _ = hpke::single_shot_seal::<A, K, M, Ctr>;", "let _ = hpke::single_shot_open::<A, K, M>;",
                   "let _ = hpke::aead::AeadCtxS::<A, K, M>::seal;", "let _ = hpke::aead::AeadCtxR::<A, K, M>::open;"],
    "verif_items": ["let _ = hpke::aead::AeadCtxS::<A, K, M>::verif_seq_state;",
                    "let _ = hpke::aead::AeadCtxR::<A, K, M>::verif_set_seq_state;", "let _ = hpke::verif::ledger;"],
}


def probe_source(groups, kems, std_error):
    body = []
    for g in groups:
        body += ITEMS[g]
    src = ["#![allow(unused)]", "#![no_std]" if False else "", "use hpke::{aead::Aead, kdf::Kdf, kem::Kem};", DUMMY_RNG,
           "pub fn surface<A: Aead, K: Kdf, M: Kem>() {"] + ["    " + b for b in body] + ["}"]
    for k in kems:
        src.append("pub fn kem_%d() { surface::<hpke::aead::ChaCha20Poly1305, hpke::kdf::HkdfSha256, hpke::kem::%s>(); "
                   "surface::<hpke::aead::ExportOnlyAead, hpke::kdf::HkdfSha512, hpke::kem::%s>(); }" % (k, KEM_TYPE[k], KEM_TYPE[k]))
    if std_error:
        src.append("fn is_err<T: std::error::Error>() {}\npub fn std_error() { is_err::<hpke::HpkeError>(); }")
    return "\n".join(src) + "\n"


DIGEST_MAIN = '''
use hpke::{aead::*, kdf::*, kem::*, Deserializable, Kem as KemTrait, OpModeR, OpModeS, PskBundle, Serializable};
include!("rng.rs");
fn hex(b: &[u8]) -> String { b.iter().map(|x| format!("{:02x}", x)).collect() }
fn scenario<A: Aead, K: Kdf, M: KemTrait>(name: &str) {
    let (sk_r, pk_r) = M::derive_keypair(b"recipient ikm for the digest run");
    let (sk_s, pk_s) = M::derive_keypair(b"sender ikm for the digest run...");
    let psk = PskBundle::new(b"a preshared key of some length..", b"its id").unwrap();
    let info = b"digest info";
    for mode in 0..4u8 {
        let ms = match mode { 0 => OpModeS::<M>::Base, 1 => OpModeS::Psk(psk), 2 => OpModeS::Auth((sk_s.clone(), pk_s.clone())),
                              _ => OpModeS::AuthPsk((sk_s.clone(), pk_s.clone()), psk) };
        let mr = match mode { 0 => OpModeR::<M>::Base, 1 => OpModeR::Psk(psk), 2 => OpModeR::Auth(pk_s.clone()),
                              _ => OpModeR::AuthPsk(pk_s.clone(), psk) };
        let mut rng = Ctr(mode);
        let (enc, mut s) = hpke::setup_sender::<A, K, M, _>(&ms, &pk_r, info, &mut rng).unwrap();
        let mut r = hpke::setup_receiver::<A, K, M>(&mr, &sk_r, &enc, info).unwrap();
        let mut out = format!("{} mode={} enc={}", name, mode, hex(&enc.to_bytes()));
        for i in 0..3u8 {
            let mut buf = [i; 37];
            let tag = s.seal_in_place_detached(&mut buf, b"aad").unwrap();
            out += &format!(" ct{}={}{}", i, hex(&buf), hex(&tag.to_bytes()));
            r.open_in_place_detached(&mut buf, b"aad", &tag).unwrap();
            assert_eq!(buf, [i; 37]);
        }
        let mut e1 = [0u8; 48]; let mut e2 = [0u8; 48];
        s.export(b"ctx", &mut e1).unwrap(); r.export(b"ctx", &mut e2).unwrap();
        assert_eq!(e1, e2);
        out += &format!(" exp={}", hex(&e1));
        let mut buf = [9u8; 5];
        let mut rng = Ctr(100 + mode);
        let (enc, tag) = hpke::single_shot_seal_in_place_detached::<A, K, M, _>(&ms, &pk_r, info, &mut buf, b"", &mut rng).unwrap();
        out += &format!(" shot={}{}{}", hex(&enc.to_bytes()), hex(&buf), hex(&tag.to_bytes()));
        hpke::single_shot_open_in_place_detached::<A, K, M>(&mr, &sk_r, &enc, info, &mut buf, b"", &tag).unwrap();
        println!("{}", out);
    }
}
fn main() {
KEMS
}
'''


def run(cmd, cwd, env=None, timeout=1800):
    p = subprocess.run(cmd, cwd=cwd, env=dict(os.environ, CARGO_NET_OFFLINE="true", **(env or {})), stdout=subprocess.PIPE,
                       stderr=subprocess.STDOUT, text=True, timeout=timeout)
    return p.returncode, p.stdout


class Builder:
    def __init__(self, prop):
        self.root = os.path.join(outdir(prop), "build")
        shutil.rmtree(self.root, ignore_errors=True)
        os.makedirs(self.root)
        self.target = os.path.join(self.root, "target")
        self.n = 0

    def cleanup(self):
        shutil.rmtree(self.root, ignore_errors=True)

    def flags(self, guard):
        # identical flags for both settings except the guard itself, so that dependency builds are shared
        base = "--check-cfg cfg(hpke_verif)"
        return {"RUSTFLAGS": ("--cfg hpke_verif " if guard else "") + base, "CARGO_TARGET_DIR": self.target + ("-g" if guard else "")}

    def crate(self, name, feats, files, bin=False):
        d = os.path.join(self.root, name)
        shutil.rmtree(d, ignore_errors=True)
        os.makedirs(os.path.join(d, "src"))
        with open(os.path.join(d, "Cargo.toml"), "w") as f:
            f.write('[package]\nname = "%s"\nversion = "0.0.0"\nedition = "2021"\n[workspace]\n[dependencies]\n'
                    'hpke = { path = "%s", default-features = false, features = [%s] }\n'
                    % (name, REPO, ", ".join('"%s"' % x for x in feats)))
        shutil.copy(os.path.join(REPO, "Cargo.lock"), os.path.join(d, "Cargo.lock"))
        for fn, content in files.items():
            with open(os.path.join(d, "src", fn), "w") as f:
                f.write(content)
        return d

    def cargo_features(self, feats):
        return ["--no-default-features"] + (["--features", ",".join(feats)] if feats else [])


def check_subset(chk, b, api, tests=True, digest_ref=None):
    """all builds for one (feature subset, guard); returns the digest lines"""
    feats = [f for f in ALL_FEATURES if f in api["features"]]
    guard = api["guard"]
    env = b.flags(guard)
    label = "+".join(feats) or "(none)"
    label += " guard=%s" % ("on" if guard else "off")
    replay = {"kind": "build", "features": feats, "guard": guard}

    def fail(what, cmd, out):
        chk.violation("%s [%s]: %s" % (what, label, out.strip().split("\n")[-1][:200] if out else ""),
                      dict(replay, what=what, command=" ".join(cmd), output=out[-3000:],
                           fingerprint="c17-%s-%s-%s" % (what[:30], ",".join(feats), guard)))
    # 1. the crate itself compiles
    cmd = ["cargo", "check", "--offline", "--lib"] + b.cargo_features(feats)
    rc, out = run(cmd, REPO, env)
    chk.case(("lib", tuple(feats), guard))
    if rc != 0:
        fail("library does not compile", cmd, out)
        return None
    # 2. the expected surface is there ...
    groups = ["inplace"] + (["allocating"] if api["allocating"] else []) + (["verif_items"] if api["verif_items"] else [])
    d = b.crate("probe", feats, {"lib.rs": probe_source(groups, api["kems"], api["std_error"])})
    cmd = ["cargo", "check", "--offline", "--lib"]
    rc, out = run(cmd, d, env)
    chk.case(("surface", tuple(feats), guard))
    if rc != 0:
        fail("an expected API item is missing", cmd, out)
    # ... and nothing that should be absent is present
    absent = []
    if not api["allocating"]:
        absent += [("allocating", x) for x in ITEMS["allocating"]]
    if not api["verif_items"]:
        absent += [("verif", x) for x in ITEMS["verif_items"][:2]]
    for k, t in KEM_TYPE.items():
        if k not in api["kems"]:
            absent.append(("kem", "type T = hpke::kem::%s;" % t))
    if not api["std_error"] and "std" not in feats:
        pass    # std::error::Error cannot be named without std in the probe either
    for kind, item in absent:
        src = ("#![allow(unused)]\nuse hpke::{aead::Aead, kdf::Kdf, kem::Kem};\n" + DUMMY_RNG +
               "pub fn probe<A: Aead, K: Kdf, M: Kem>() { %s }\n" % item)
        d = b.crate("absent", feats, {"lib.rs": src})
        rc, out = run(cmd, d, env)
        chk.case(("absent", tuple(feats), guard, item))
        if rc == 0:
            fail("an API item that must be absent is present: " + item, cmd, out)
    # 3. the crate's own tests under this subset (the KAT against the empty vector file is an artefact of the snapshot)
    if tests:
        cmd = ["cargo", "test", "--offline", "--lib"] + b.cargo_features(feats) + ["--", "--skip", "kat_tests::kat_test"]
        rc, out = run(cmd, REPO, env)
        chk.case(("tests", tuple(feats), guard))
        if rc != 0 or "test result: ok" not in out:
            fail("the crate's tests fail", cmd, out)
    # 4. behaviour: a fixed scripted scenario per enabled KEM must give the outputs of the full feature set
    lines = []
    if api["kems"]:
        calls = "\n".join('    scenario::<ChaCha20Poly1305, HkdfSha256, %s>("%d/1/3"); scenario::<AesGcm128, HkdfSha512, %s>("%d/3/1");'
                          ' scenario::<AesGcm256, HkdfSha384, %s>("%d/2/2");' % (KEM_TYPE[k], k, KEM_TYPE[k], k, KEM_TYPE[k], k)
                          for k in sorted(api["kems"]))
        d = b.crate("digest", feats, {"main.rs": DIGEST_MAIN.replace("KEMS", calls), "rng.rs": DUMMY_RNG})
        cmd = ["cargo", "run", "--offline", "--quiet"]
        rc, out = run(cmd, d, env)
        chk.case(("digest", tuple(feats), guard))
        if rc != 0:
            fail("scripted scenario fails", cmd, out)
        else:
            lines = [l for l in out.split("\n") if " mode=" in l]
            if digest_ref is not None:
                ref = {l.split(" enc=")[0]: l for l in digest_ref}
                for l in lines:
                    k = l.split(" enc=")[0]
                    if ref.get(k) != l:
                        fail("outputs differ from the full feature set for " + k, cmd, l + "\nvs\n" + str(ref.get(k)))
                        break
    return lines


# C18 under feature subsets WITHOUT alloc/std: the in-place API driven from several threads at once must give the
# results of running the same sessions one after the other (a build-configuration-specific shared buffer would show)
PAR_MAIN = '''
use hpke::{aead::*, kdf::*, kem::*, Kem as KemTrait, OpModeR, OpModeS, PskBundle, Serializable};
include!("rng.rs");
fn session<A: Aead, K: Kdf, M: KemTrait>(seed: u8) -> Vec<u8> {
    let mut out = Vec::new();
    let (sk_r, pk_r) = M::derive_keypair(&[seed, 1, 2, 3, 4, 5, 6, 7, 8, 9, 10, 11, 12, 13, 14, 15, 16, 17, 18, 19, 20, 21, 22, 23, 24, 25, 26, 27, 28, 29, 30, 31]);
    let (sk_s, pk_s) = M::derive_keypair(&[seed, 99, 2, 3, 4, 5, 6, 7, 8, 9, 10, 11, 12, 13, 14, 15, 16, 17, 18, 19, 20, 21, 22, 23, 24, 25, 26, 27, 28, 29, 30, 31]);
    let psk_bytes = [seed; 40];
    let psk = PskBundle::new(&psk_bytes, b"id").unwrap();
    let info = [seed; 11];
    for round in 0..6u8 {
        let mode = round % 4;
        let ms = match mode { 0 => OpModeS::<M>::Base, 1 => OpModeS::Psk(psk), 2 => OpModeS::Auth((sk_s.clone(), pk_s.clone())),
                              _ => OpModeS::AuthPsk((sk_s.clone(), pk_s.clone()), psk) };
        let mr = match mode { 0 => OpModeR::<M>::Base, 1 => OpModeR::Psk(psk), 2 => OpModeR::Auth(pk_s.clone()),
                              _ => OpModeR::AuthPsk(pk_s.clone(), psk) };
        let mut rng = Ctr(seed.wrapping_mul(7).wrapping_add(round));
        let (enc, mut s) = hpke::setup_sender::<A, K, M, _>(&ms, &pk_r, &info, &mut rng).unwrap();
        out.extend_from_slice(&enc.to_bytes());
        let mut ok = true;
        match hpke::setup_receiver::<A, K, M>(&mr, &sk_r, &enc, &info) {
            Ok(mut r) => {
                for i in 0..3u8 {
                    let mut buf = [i ^ seed; 29];
                    let tag = s.seal_in_place_detached(&mut buf, &info).unwrap();
                    out.extend_from_slice(&buf); out.extend_from_slice(&tag.to_bytes());
                    ok &= r.open_in_place_detached(&mut buf, &info, &tag).is_ok() && buf == [i ^ seed; 29];
                }
                let mut e1 = [0u8; 32]; let mut e2 = [0u8; 32];
                s.export(b"x", &mut e1).unwrap(); r.export(b"x", &mut e2).unwrap();
                ok &= e1 == e2;
                out.extend_from_slice(&e1);
            }
            Err(_) => ok = false,
        }
        out.push(ok as u8);
    }
    out
}
fn all(seed: u8) -> Vec<u8> {
    let mut v = Vec::new();
KEMS
    v
}
fn main() {
    let n = 8u8;
    let seq: Vec<Vec<u8>> = (0..n).map(all).collect();
    let mut bad = 0;
    for rep in 0..12 {
        let hs: Vec<_> = (0..n).map(|t| std::thread::spawn(move || all(t))).collect();
        for (t, h) in hs.into_iter().enumerate() {
            if h.join().unwrap() != seq[t] { bad += 1; println!("MISMATCH rep {} session {}", rep, t); }
        }
    }
    let round_trips_ok = seq.iter().all(|v| v.chunks(1).len() > 0);
    println!("sessions={} reps=12 mismatches={} {}", n, bad, round_trips_ok);
}
'''


def concurrency_probe(chk, b, feats):
    """build and run the threaded probe under the given (no-alloc) feature subset; returns number of mismatches or None"""
    kems = [k for k, f in ((32, "x25519"), (16, "p256"), (17, "p384"), (18, "p521")) if f in feats]
    calls = "\n".join("    v.extend(session::<ChaCha20Poly1305, HkdfSha256, %s>(seed)); v.extend(session::<AesGcm128, HkdfSha512, %s>(seed));"
                      % (KEM_TYPE[k], KEM_TYPE[k]) for k in kems)
    d = b.crate("par", feats, {"main.rs": PAR_MAIN.replace("KEMS", calls), "rng.rs": DUMMY_RNG})
    cmd = ["cargo", "run", "--offline", "--quiet", "--release"]
    rc, out = run(cmd, d, b.flags(False))
    chk.case(("concurrency-probe", tuple(feats)))
    if rc != 0:
        chk.violation("concurrent in-place sessions fail under features %s: %s" % (feats, out.strip().split("\n")[-1][:200]),
                      {"kind": "build", "features": feats, "command": " ".join(cmd), "output": out[-3000:],
                       "fingerprint": "c18-par-build-" + ",".join(feats)})
        return None
    line = [l for l in out.split("\n") if l.startswith("sessions=")]
    mism = int(line[0].split("mismatches=")[1].split()[0]) if line else -1
    if mism != 0:
        chk.violation("sessions run concurrently on %d threads give other results than the same sessions run one after the "
                      "other (features %s, no alloc): %d of %d" % (8, feats, mism, 96),
                      {"kind": "build", "features": feats, "command": " ".join(cmd), "output": out[-3000:],
                       "fingerprint": "c18-par-" + ",".join(feats)})
    return mism
