"""./check <ID> --replay FILE : re-run a recorded violation against /repo's current working tree."""
import json
import subprocess
import sys

from .common import Check, ToolError
from .execproc import Executor, run_script, result_kind
from .replay import Replayer, make_leaves, ALL
from oracle.terms import leaves_of


def run(prop, path):
    with open(path) as f:
        v = json.load(f)
    r = v["replay"]
    kind = r.get("kind")
    print("replaying %s (%s): %s" % (path, kind, v.get("what", "")[:200]))
    try:
        if kind == "behaviour":
            tags = ALL if r.get("exact_tags") == "ALL" else set(r.get("exact_tags") or [])
            steps = r["steps"]
            with Executor(profile=r.get("profile", "release")) as ex:
                rp = Replayer(ex, make_leaves(leaves_of(steps), r.get("seed", 1)), exact_tags=tags, prefix="r_",
                              memo={}, **(r.get("options") or {}))
                idx, bad = rp.run(steps)
                for c, e in rp.trace[-3:]:
                    print("  call  ", json.dumps(c)[:300])
                    print("  event ", json.dumps(e)[:300])
            if idx is None:
                print("does not reproduce: every step conforms to the specification's prediction")
                return 0
            print("reproduced at step %d: %s" % (idx, "; ".join(bad)))
        elif kind in ("trace", "history"):
            cmds = r.get("script") or r.get("history")
            if not isinstance(cmds, list):
                print("recorded history was too long to store")
                return 2
            evs = run_script(cmds)
            print("  last call  ", json.dumps(cmds[-1])[:400])
            print("  last event ", json.dumps(evs[-1])[:400])
            want = r.get("event")
            if want is not None:
                strip = lambda e: {k: e.get(k) for k in ("ok", "err", "panic", "seq", "ovf")}
                if strip(evs[-1]) != strip(want):
                    print("does not reproduce: the last call now returns something else than recorded")
                    return 0
            print("reproduced: the recorded deviating result is returned again (%s)" % r.get("why", r.get("mismatch")))
        elif kind == "build":
            print("  command:", r.get("command"))
            print("  (feature-subset / probe builds are re-run by ./check %s quick)" % prop)
            return 2
        elif kind == "wiring":
            steps = r["steps"]
            with Executor() as ex:
                rp = Replayer(ex, make_leaves(leaves_of([steps, r["hyps"]]), r.get("seed", 1)), prefix="r_", compare_bytes=False, memo={})
                idx, bad = rp.run(steps)
                out = rp.trace[-1][1].get("ok", {}).get("out")
            print("  observed export:", out, " recorded:", r.get("observed"), " matched hypotheses then:", r.get("matched"))
            if out != r.get("observed"):
                print("does not reproduce")
                return 0
        elif kind == "order":
            strip = lambda e: {k: e.get(k) for k in ("ok", "err", "panic", "seq", "ovf")}
            with Executor() as ex, Executor() as ex2:
                fwd = [[ex.call(c) for c in cmds] for cmds in r["scripts"]]
                bwd = {t: [ex2.call(c) for c in r["scripts"][t]] for t in reversed(range(len(r["scripts"])))}
            diff = [(t, j) for t in range(len(fwd)) for j in range(len(fwd[t])) if strip(fwd[t][j]) != strip(bwd[t][j])]
            if not diff:
                print("does not reproduce: both orders give identical results")
                return 0
            print("reproduced: %d calls return different results in the two orders, first: script %d call %d" % (len(diff), *diff[0]))
        elif kind == "par_stress":
            strip = lambda e: {k: e.get(k) for k in ("ok", "err", "panic", "seq", "ovf")}
            if r.get("cold"):
                # the concurrent calls were the first thing the process did: same here, the sequential reference comes
                # from another process; the deviation is a race, so several attempts
                hitc = None
                for attempt in range(20):
                    with Executor() as ex:
                        out = ex.call({"op": "par", "threads": r["threads"], "reps": r["reps"]})
                    with Executor() as ex:
                        base = [[ex.call(c) for c in cmds] for cmds in r["threads"]]
                    if any(any(strip(a) != strip(b) for a, b in zip(res[:len(cm)], bs))
                           for res, cm, bs in zip(out.get("ok", {}).get("results", []), r["threads"], base)):
                        hitc = attempt
                        break
                if hitc is None:
                    print("does not reproduce in 20 cold starts (timing dependent)")
                    return 0
                print("reproduced at cold start %d: a thread's first results differ from the sequential ones" % hitc)
                print("VIOLATION property=%s replay=%s" % (prop, path))
                return 1
            with Executor() as ex:
                base = [[ex.call(c) for c in cmds] for cmds in r["threads"]]
                out = ex.call({"op": "par", "threads": r["threads"], "reps": r["reps"]})
            hit = None
            for t, res in enumerate(out.get("ok", {}).get("results", [])):
                n = len(r["threads"][t])
                if any(strip(a) != strip(b) for a, b in zip(res[:n], base[t])) or (res and "diverged" in res[-1]):
                    hit = (t, res[-1].get("diverged"))
                    break
            if hit is None:
                print("does not reproduce in this run (the deviation is timing dependent; %d repetitions on %d threads all "
                      "agreed with the sequential results)" % (r["reps"], len(r["threads"])))
                return 0
            print("reproduced: thread %d deviates from its sequential results: %s" % (hit[0], json.dumps(hit[1])[:400]))
        elif kind in ("par", "par_export"):
            print(json.dumps(r)[:2000])
            return 2
        else:
            print("unknown replay kind")
            return 2
    except ToolError as e:
        print("TOOL-ERROR:", e)
        return 2
    print("VIOLATION property=%s replay=%s" % (prop, path))
    return 1
