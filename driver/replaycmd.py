"""./check <ID> --replay FILE : re-run a recorded violation against /repo's current working tree."""
import json
import subprocess
import sys

from .common import Check, ToolError
from .execproc import Executor, run_script, result_kind
from .replay import Replayer, make_leaves, ALL
from oracle.terms import leaves_of


def run(prop, path):
    with open(path) as f:
        v = json.load(f)
    r = v["replay"]
    kind = r.get("kind")
    print("replaying %s (%s): %s" % (path, kind, v.get("what", "")[:200]))
    try:
        if kind == "behaviour":
            tags = ALL if r.get("exact_tags") == "ALL" else set(r.get("exact_tags") or [])
            steps = r["steps"]
            with Executor() as ex:
                rp = Replayer(ex, make_leaves(leaves_of(steps), r.get("seed", 1)), exact_tags=tags, prefix="r_",
                              memo={}, **(r.get("options") or {}))
                idx, bad = rp.run(steps)
                for c, e in rp.trace[-3:]:
                    print("  call  ", json.dumps(c)[:300])
                    print("  event ", json.dumps(e)[:300])
            if idx is None:
                print("does not reproduce: every step conforms to the specification's prediction")
                return 0
            print("reproduced at step %d: %s" % (idx, "; ".join(bad)))
        elif kind in ("trace", "history"):
            cmds = r.get("script") or r.get("history")
            if not isinstance(cmds, list):
                print("recorded history was too long to store")
                return 2
            evs = run_script(cmds)
            print("  last call  ", json.dumps(cmds[-1])[:400])
            print("  last event ", json.dumps(evs[-1])[:400])
            want = r.get("event")
            if want is not None:
                strip = lambda e: {k: e.get(k) for k in ("ok", "err", "panic", "seq", "ovf")}
                if strip(evs[-1]) != strip(want):
                    print("does not reproduce: the last call now returns something else than recorded")
                    return 0
            print("reproduced: the recorded deviating result is returned again (%s)" % r.get("why", r.get("mismatch")))
        elif kind == "build":
            print("  command:", r.get("command"))
            print("  (feature-subset / probe builds are re-run by ./check %s quick)" % prop)
            return 2
        elif kind == "wiring":
            steps = r["steps"]
            with Executor() as ex:
                rp = Replayer(ex, make_leaves(leaves_of([steps, r["hyps"]]), r.get("seed", 1)), prefix="r_", compare_bytes=False, memo={})
                idx, bad = rp.run(steps)
                out = rp.trace[-1][1].get("ok", {}).get("out")
            print("  observed export:", out, " recorded:", r.get("observed"), " matched hypotheses then:", r.get("matched"))
            if out != r.get("observed"):
                print("does not reproduce")
                return 0
        elif kind in ("par", "par_export"):
            print(json.dumps(r)[:2000])
            return 2
        else:
            print("unknown replay kind")
            return 2
    except ToolError as e:
        print("TOOL-ERROR:", e)
        return 2
    print("VIOLATION property=%s replay=%s" % (prop, path))
    return 1
